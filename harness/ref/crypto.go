package ref

import (
	"crypto/aes"
	"crypto/cipher"
	"crypto/dsa"
	"crypto/hmac"
	"crypto/sha1"
	"crypto/sha256"
	"errors"
	"math/big"
)

// Group parameters: RFC 3526 group 5 (1536 bit MODP), generator 2.
var (
	P, _ = new(big.Int).SetString(""+
		"FFFFFFFFFFFFFFFFC90FDAA22168C234C4C6628B80DC1CD1"+
		"29024E088A67CC74020BBEA63B139B22514A08798E3404DD"+
		"EF9519B3CD3A431B302B0A6DF25F14374FE1356D6D51C245"+
		"E485B576625E7EC6F44C42E9A637ED6B0BFF5CB6F406B7ED"+
		"EE386BFB5A899FA5AE9F24117C4B1FE649286651ECE45B3D"+
		"C2007CB8A163BF0598DA48361C55D39A69163FA8FD24CF5F"+
		"83655D23DCA3AD961C62F356208552BB9ED529077096966D"+
		"670C354E4ABC9804F1746C08CA237327FFFFFFFFFFFFFFFF", 16)
	G   = big.NewInt(2)
	Q   = new(big.Int).Rsh(new(big.Int).Sub(P, big.NewInt(1)), 1) // (p-1)/2
	one = big.NewInt(1)
	two = big.NewInt(2)
	// PM2 is p-2, the largest legal public value.
	PM2 = new(big.Int).Sub(P, two)
)

// InGroup reports 2 <= v <= p-2.
func InGroup(v *big.Int) bool {
	return v != nil && v.Cmp(two) >= 0 && v.Cmp(PM2) <= 0
}

// Pub computes g^x mod p for a big-endian exponent.
func Pub(x []byte) *big.Int {
	return new(big.Int).Exp(G, new(big.Int).SetBytes(x), P)
}

// DH computes their^x mod p.
func DH(their *big.Int, x []byte) *big.Int {
	return new(big.Int).Exp(their, new(big.Int).SetBytes(x), P)
}

func sha256of(parts ...[]byte) []byte {
	h := sha256.New()
	for _, p := range parts {
		h.Write(p)
	}
	return h.Sum(nil)
}

func sha1of(parts ...[]byte) []byte {
	h := sha1.New()
	for _, p := range parts {
		h.Write(p)
	}
	return h.Sum(nil)
}

func hmac256(key []byte, parts ...[]byte) []byte {
	m := hmac.New(sha256.New, key)
	for _, p := range parts {
		m.Write(p)
	}
	return m.Sum(nil)
}

func hmac1(key []byte, parts ...[]byte) []byte {
	m := hmac.New(sha1.New, key)
	for _, p := range parts {
		m.Write(p)
	}
	return m.Sum(nil)
}

// aesCTR en/deciphers with a 16-byte initial counter block.
func aesCTR(key, iv, in []byte) []byte {
	blk, err := aes.NewCipher(key)
	if err != nil {
		panic(err)
	}
	out := make([]byte, len(in))
	cipher.NewCTR(blk, iv).XORKeyStream(out, in)
	return out
}

// AKEKeys are the values derived from the AKE shared secret.
type AKEKeys struct {
	SSID       [8]byte
	C, Cp      []byte // AES keys c, c'
	M1, M2     []byte
	M1p, M2p   []byte
	SecretMPI  []byte
	SharedBits *big.Int
}

// DeriveAKE computes ssid, c, c', m1, m2, m1', m2' from the shared secret s.
func DeriveAKE(s *big.Int) *AKEKeys {
	sec := PutMPI(nil, s)
	h2 := func(b byte) []byte { return sha256of([]byte{b}, sec) }
	k := &AKEKeys{SecretMPI: sec, SharedBits: s}
	copy(k.SSID[:], h2(0)[:8])
	cc := h2(1)
	k.C, k.Cp = cc[:16], cc[16:]
	k.M1, k.M2, k.M1p, k.M2p = h2(2), h2(3), h2(4), h2(5)
	return k
}

// SessionKeys are the data-message keys for one (our key, their key) pair.
type SessionKeys struct {
	SendAES, RecvAES []byte
	SendMAC, RecvMAC []byte
	Extra            []byte
}

// DeriveSession computes the keys for our DH key (priv exponent bytes, pub) and their pub.
func DeriveSession(ourPriv []byte, ourPub, theirPub *big.Int) *SessionKeys {
	s := DH(theirPub, ourPriv)
	sec := PutMPI(nil, s)
	var sendb, recvb byte = 2, 1
	if ourPub.Cmp(theirPub) > 0 { // we are the "high" end
		sendb, recvb = 1, 2
	}
	k := &SessionKeys{}
	k.SendAES = sha1of([]byte{sendb}, sec)[:16]
	k.RecvAES = sha1of([]byte{recvb}, sec)[:16]
	k.SendMAC = sha1of(k.SendAES)
	k.RecvMAC = sha1of(k.RecvAES)
	k.Extra = sha256of([]byte{0xff}, sec)
	return k
}

// DSAKey is a long-term key.
type DSAKey struct {
	Priv dsa.PrivateKey
}

// ParseDSAPrivate reads type(2) p q g y x.
func ParseDSAPrivate(b []byte) (*DSAKey, error) {
	r := &Rd{B: b}
	if t := r.U16(); t != 0 {
		return nil, errors.New("ref: key type")
	}
	k := &DSAKey{}
	k.Priv.P, k.Priv.Q, k.Priv.G, k.Priv.Y, k.Priv.X = r.MPI(), r.MPI(), r.MPI(), r.MPI(), r.MPI()
	return k, r.Err
}

// PubBytes serialises PUBKEY: SHORT 0, MPI p, q, g, y.
func (k *DSAKey) PubBytes() []byte { return PutPub(&k.Priv.PublicKey) }

// PutPub serialises a DSA public key.
func PutPub(pk *dsa.PublicKey) []byte {
	b := []byte{0, 0}
	b = PutMPI(b, pk.P)
	b = PutMPI(b, pk.Q)
	b = PutMPI(b, pk.G)
	return PutMPI(b, pk.Y)
}

// Fingerprint is SHA-1 of the PUBKEY without its type field.
func Fingerprint(pubBytes []byte) []byte { return sha1of(pubBytes[2:]) }

// ParsePub reads a PUBKEY from r.
func ParsePub(r *Rd) *dsa.PublicKey {
	if t := r.U16(); t != 0 && r.Err == nil {
		r.Err = errors.New("ref: key type")
	}
	pk := &dsa.PublicKey{}
	pk.P, pk.Q, pk.G, pk.Y = r.MPI(), r.MPI(), r.MPI(), r.MPI()
	return pk
}

// Sign produces the 40-byte r||s signature over the (untruncated) digest.
func (k *DSAKey) Sign(rand interface{ Read([]byte) (int, error) }, digest []byte) ([]byte, error) {
	r, s, err := dsa.Sign(rand, &k.Priv, digest)
	if err != nil {
		return nil, err
	}
	out := make([]byte, 40)
	r.FillBytes(out[:20])
	s.FillBytes(out[20:])
	return out, nil
}

// Verify checks a 40-byte signature.
func Verify(pk *dsa.PublicKey, digest, sig []byte) bool {
	if len(sig) != 40 || pk.P == nil || pk.Q == nil || pk.G == nil || pk.Y == nil {
		return false
	}
	if pk.P.Sign() <= 0 || pk.Q.Sign() <= 0 || pk.P.BitLen() > 4096 {
		return false
	}
	return dsa.Verify(pk, digest, new(big.Int).SetBytes(sig[:20]), new(big.Int).SetBytes(sig[20:]))
}
