package ref

import (
	"bytes"
	"crypto/dsa"
	"errors"
	"fmt"
	"math/big"
)

// AKE states.
const (
	StNone = iota
	StAwaitDHKey
	StAwaitRevealSig
	StAwaitSig
)

type dhPair struct {
	Priv []byte
	Pub  *big.Int
}

// SMPOutcome records what an honest reference SMP run concluded.
type SMPOutcome struct {
	Done, Match, Aborted bool
	Err                  error
}

// Party is a complete OTR participant built only on this package. It is used
// as an authenticated peer that may be told to misbehave.
type Party struct {
	shortTries int
	SMPShort   string // passed to the SMP runs this party takes part in (see SMP.Short)
	Version    uint16
	Key        *DSAKey
	// Advertise, when set, is the PUBKEY placed in the encrypted signature instead of Key's own.
	Advertise []byte
	Rnd       func(n int) []byte
	OurTag    uint32
	TheirTag  uint32
	// SkipChecks makes the party accept what an honest one would reject (to act as a lenient relay).
	SkipGroupCheck bool

	State     int
	r, x, y   []byte
	gx, gy    *big.Int
	commit    *DHCommit
	ake       *AKEKeys
	peerDH    *big.Int
	revealMsg []byte

	Encrypted      bool
	Finished       bool
	SSID           [8]byte
	HighlightFirst bool
	TheirLong      *dsa.PublicKey
	TheirLongBytes []byte

	OurKeyID   uint32
	TheirKeyID uint32
	// FirstKeyID is the serial number this party gives the D-H key it uses in the key exchange (0 means 1, as
	// libotr does; the specification only asks for a number greater than zero)
	FirstKeyID uint32
	// PadFirst > 0: every record block this party sends starts with a padding record of PadFirst-1 bytes
	PadFirst int
	ours     map[uint32]dhPair
	theirs   map[uint32]*big.Int
	ctrOut   map[[2]uint32]uint64
	ctrIn    map[[2]uint32]uint64
	usedRecv map[[2]uint32][]byte
	oldMACs  []byte
	// Disclose=false keeps retired MAC keys back (some tests need silence)
	NoDisclose bool

	// SMP (honest automation)
	smp        *SMP
	smpRole    int // 0 none, 1 initiator, 2 responder
	smpStep    int
	pendingQ   []*big.Int // stored SMP1 while waiting for the secret
	SMPAsked   bool
	SMPQ       string
	SMPResult  SMPOutcome
	AutoSecret []byte // when non-nil, answer SMP1 automatically with this secret
	SMPPassive bool   // record SMP TLVs without acting on them (relay / scripted deviant peer)

	// records
	Exps        [][]byte
	Rs          [][]byte
	Received    [][]byte
	TLVsIn      []TLV
	SymKeys     [][]byte
	Errors      []string
	reasm       Reassembler
	Completions int
}

// NewParty creates a party for one protocol version.
func NewParty(version uint16, key *DSAKey, rnd func(n int) []byte) *Party {
	p := &Party{Version: version, Key: key, Rnd: rnd}
	if version == 3 {
		for p.OurTag < 0x100 {
			b := rnd(4)
			p.OurTag = uint32(b[0])<<24 | uint32(b[1])<<16 | uint32(b[2])<<8 | uint32(b[3])
		}
	}
	return p
}

func (p *Party) exp() ([]byte, *big.Int) {
	x := p.Rnd(40)
	p.Exps = append(p.Exps, x)
	return x, Pub(x)
}

func (p *Party) wrap(typ byte, body []byte) []byte {
	return Armor(append(PutHeader(p.Version, typ, p.OurTag, p.TheirTag), body...))
}

func (p *Party) advertise() []byte {
	if p.Advertise != nil {
		return p.Advertise
	}
	return p.Key.PubBytes()
}

// Query returns a query message for this party's version.
func (p *Party) Query() []byte { return []byte(fmt.Sprintf("?OTRv%d?", p.Version)) }

// StartAKE emits a D-H Commit.
func (p *Party) StartAKE() []byte {
	p.r = p.Rnd(16)
	p.Rs = append(p.Rs, p.r)
	p.x, p.gx = p.exp()
	p.State = StAwaitDHKey
	return p.wrap(TypeDHCommit, BuildDHCommit(p.r, p.gx))
}

func (p *Party) rnd() *rndReader { return &rndReader{p.Rnd} }

type rndReader struct{ f func(int) []byte }

func (r *rndReader) Read(b []byte) (int, error) {
	if len(b) == 1 {
		b[0] = 0x55
		return 1, nil
	}
	copy(b, r.f(len(b)))
	return len(b), nil
}

// Receive processes one wire message and returns delivered text and replies.
func (p *Party) Receive(wire []byte) (plain []byte, out [][]byte, err error) {
	switch Classify(wire) {
	case KQuery:
		vs, _ := ParseQuery(wire)
		for _, v := range vs {
			if uint16(v) == p.Version {
				return nil, [][]byte{p.StartAKE()}, nil
			}
		}
		return nil, nil, nil
	case KFragV2, KFragV3:
		f, ok := ParseFragment(wire)
		if !ok {
			return nil, nil, errors.New("ref: bad fragment")
		}
		if f.V3 && !p.tagsOK(f.Sender, f.Recv) {
			return nil, nil, nil
		}
		whole, done := p.reasm.Add(f)
		if !done {
			return nil, nil, nil
		}
		return p.Receive(whole)
	case KEncoded:
	default:
		return wire, nil, nil
	}
	raw, ok := Dearmor(wire)
	if !ok {
		return nil, nil, errors.New("ref: bad armour")
	}
	h, err := ParseHeader(raw)
	if err != nil {
		return nil, nil, err
	}
	if h.Version != p.Version {
		return nil, nil, errors.New("ref: wrong version")
	}
	if h.Version == 3 && !p.tagsOK(h.Sender, h.Recv) {
		return nil, nil, nil
	}
	body := raw[h.Len:]
	switch h.Type {
	case TypeDHCommit:
		return nil, p.onCommit(body), nil
	case TypeDHKey:
		o, e := p.onDHKey(body)
		return nil, o, e
	case TypeRevealSig:
		o, e := p.onReveal(body)
		return nil, o, e
	case TypeSignature:
		return nil, nil, p.onSig(body)
	case TypeData:
		return p.onData(raw[:h.Len], body)
	}
	return nil, nil, errors.New("ref: unknown type")
}

func (p *Party) tagsOK(sender, recv uint32) bool {
	if sender < 0x100 || (recv != 0 && recv < 0x100) {
		return false
	}
	if recv != 0 && recv != p.OurTag {
		return false
	}
	if p.TheirTag == 0 {
		p.TheirTag = sender
	}
	return p.TheirTag == sender
}

func (p *Party) onCommit(body []byte) [][]byte {
	c, _, err := ParseDHCommit(body)
	if err != nil {
		return nil
	}
	switch p.State {
	case StAwaitDHKey:
		mine := sha256of(PutMPI(nil, p.gx))
		if bytes.Compare(mine, c.HashGx) > 0 {
			// ours wins: ignore theirs, resend ours, stay in AWAITING_DHKEY
			return [][]byte{p.wrap(TypeDHCommit, BuildDHCommit(p.r, p.gx))}
		}
		fallthrough
	case StNone, StAwaitSig:
		p.y, p.gy = p.exp()
		p.commit = c
		p.State = StAwaitRevealSig
		return [][]byte{p.wrap(TypeDHKey, BuildDHKey(p.gy))}
	case StAwaitRevealSig:
		p.commit = c
		return [][]byte{p.wrap(TypeDHKey, BuildDHKey(p.gy))}
	}
	return nil
}

func (p *Party) onDHKey(body []byte) ([][]byte, error) {
	k, _, err := ParseDHKey(body)
	if err != nil {
		return nil, err
	}
	switch p.State {
	case StAwaitDHKey:
		if !InGroup(k.Gy) {
			return nil, errors.New("ref: g^y out of range")
		}
		p.peerDH = k.Gy
		p.ake = DeriveAKE(DH(k.Gy, p.x))
		b, err := BuildRevealSig(p.ake, p.r, p.gx, k.Gy, p.Key, p.advertise(), p.firstKeyID(), p.rnd())
		if err != nil {
			return nil, err
		}
		p.revealMsg = p.wrap(TypeRevealSig, b)
		p.State = StAwaitSig
		return [][]byte{p.revealMsg}, nil
	case StAwaitSig:
		if p.peerDH != nil && p.peerDH.Cmp(k.Gy) == 0 {
			return [][]byte{p.revealMsg}, nil
		}
	}
	return nil, nil
}

func (p *Party) onReveal(body []byte) ([][]byte, error) {
	if p.State != StAwaitRevealSig {
		return nil, nil
	}
	rv, _, err := ParseRevealSig(body)
	if err != nil {
		return nil, err
	}
	gx, err := OpenCommit(p.commit, rv.R)
	if err != nil {
		return nil, err
	}
	k := DeriveAKE(DH(gx, p.y))
	op, err := OpenSig(k.C, k.M1, k.M2, rv.EncSig, rv.MAC, gx, p.gy)
	if err != nil {
		return nil, err
	}
	b, err := BuildSignature(k, p.gy, gx, p.Key, p.advertise(), p.firstKeyID(), p.rnd())
	if err != nil {
		return nil, err
	}
	p.established(k, dhPair{p.y, p.gy}, gx, op, false)
	return [][]byte{p.wrap(TypeSignature, b)}, nil
}

func (p *Party) onSig(body []byte) error {
	if p.State != StAwaitSig {
		return nil
	}
	sg, _, err := ParseSignature(body)
	if err != nil {
		return err
	}
	op, err := OpenSig(p.ake.Cp, p.ake.M1p, p.ake.M2p, sg.EncSig, sg.MAC, p.peerDH, p.gx)
	if err != nil {
		return err
	}
	p.established(p.ake, dhPair{p.x, p.gx}, p.peerDH, op, true)
	return nil
}

func (p *Party) firstKeyID() uint32 {
	if p.FirstKeyID == 0 {
		return 1
	}
	return p.FirstKeyID
}

func (p *Party) established(k *AKEKeys, own dhPair, their *big.Int, op *OpenedSig, sentReveal bool) {
	p.State = StNone
	p.Encrypted, p.Finished = true, false
	p.SSID = k.SSID
	p.HighlightFirst = sentReveal
	p.TheirLong, p.TheirLongBytes = op.Pub, op.PubBytes
	fk := p.firstKeyID()
	p.ours = map[uint32]dhPair{fk: own}
	nx, npub := p.exp()
	p.ours[fk+1] = dhPair{nx, npub}
	p.OurKeyID = fk + 1
	p.theirs = map[uint32]*big.Int{op.KeyID: their}
	p.TheirKeyID = op.KeyID
	p.ctrOut, p.ctrIn, p.usedRecv = map[[2]uint32]uint64{}, map[[2]uint32]uint64{}, map[[2]uint32][]byte{}
	p.oldMACs = nil
	p.smp, p.smpRole, p.smpStep = nil, 0, 0
	p.Completions++
}

// DataOpts overrides fields of an outgoing data message (zero values: honest).
type DataOpts struct {
	Flags        byte
	TLVs         []TLV
	RawPlain     []byte // when non-nil, used as the plaintext instead of text||TLVs
	SenderKeyID  *uint32
	RecipKeyID   *uint32
	Ctr          *uint64
	SenderTag    *uint32
	RecvTag      *uint32
	NextDH       *big.Int
	BadMAC       bool
	KeepCounter  bool // do not advance the outgoing counter
	ExtraOldMACs []byte
}

// Send builds an honest data message carrying text and TLVs.
func (p *Party) Send(text []byte, tlvs ...TLV) []byte {
	return p.SendOpts(text, DataOpts{TLVs: tlvs})
}

// SendOpts builds a data message, authenticated with the real session keys, with overrides.
func (p *Party) SendOpts(text []byte, o DataOpts) []byte {
	sk, rk := p.OurKeyID-1, p.TheirKeyID
	if o.SenderKeyID != nil {
		sk = *o.SenderKeyID
	}
	if o.RecipKeyID != nil {
		rk = *o.RecipKeyID
	}
	own, okO := p.ours[sk]
	their, okT := p.theirs[rk]
	if !okO {
		own = p.ours[p.OurKeyID-1]
	}
	if !okT {
		their = p.theirs[p.TheirKeyID]
	}
	keys := DeriveSession(own.Priv, own.Pub, their)
	pair := [2]uint32{sk, rk}
	ctr := p.ctrOut[pair] + 1
	if o.Ctr != nil {
		ctr = *o.Ctr
	} else if !o.KeepCounter {
		p.ctrOut[pair] = ctr
	}
	plain := o.RawPlain
	if plain == nil {
		tlvs := o.TLVs
		if p.PadFirst > 0 && len(tlvs) > 0 {
			// the order of records is the sender's choice: this party puts its padding record first
			tlvs = append([]TLV{{Type: 0, Val: make([]byte, p.PadFirst-1)}}, tlvs...)
		}
		plain = PutPlain(text, tlvs)
	}
	enc := CryptData(keys.SendAES, ctr, plain)
	st, rt := p.OurTag, p.TheirTag
	if o.SenderTag != nil {
		st = *o.SenderTag
	}
	if o.RecvTag != nil {
		rt = *o.RecvTag
	}
	hdr := PutHeader(p.Version, TypeData, st, rt)
	next := p.ours[p.OurKeyID].Pub
	if o.NextDH != nil {
		next = o.NextDH
	}
	old := append(append([]byte{}, p.oldMACs...), o.ExtraOldMACs...)
	if p.NoDisclose {
		old = o.ExtraOldMACs
	} else {
		p.oldMACs = nil
	}
	mk := keys.SendMAC
	if o.BadMAC {
		mk = sha1of(mk)
	}
	return Armor(append(hdr, BuildData(hdr, o.Flags, sk, rk, next, ctr, enc, mk, old)...))
}

// ExtraKeyFor returns the extra symmetric key of the pair the next honest message will use.
func (p *Party) ExtraKeyFor() []byte {
	own := p.ours[p.OurKeyID-1]
	return DeriveSession(own.Priv, own.Pub, p.theirs[p.TheirKeyID]).Extra
}

func (p *Party) onData(hdr, body []byte) ([]byte, [][]byte, error) {
	if !p.Encrypted {
		return nil, nil, errors.New("ref: data message while not encrypted")
	}
	d, err := ParseData(body)
	if err != nil {
		return nil, nil, err
	}
	own, ok := p.ours[d.RecipKeyID]
	if !ok || (d.RecipKeyID != p.OurKeyID && d.RecipKeyID != p.OurKeyID-1) {
		return nil, nil, errors.New("ref: recipient key id outside window")
	}
	their, ok := p.theirs[d.SenderKeyID]
	if !ok || (d.SenderKeyID != p.TheirKeyID && d.SenderKeyID+1 != p.TheirKeyID) {
		return nil, nil, errors.New("ref: sender key id outside window")
	}
	keys := DeriveSession(own.Priv, own.Pub, their)
	if !bytes.Equal(DataMAC(keys.RecvMAC, hdr, body, d), d.MAC) {
		return nil, nil, errors.New("ref: bad MAC")
	}
	pair := [2]uint32{d.RecipKeyID, d.SenderKeyID}
	if d.Ctr <= p.ctrIn[pair] {
		return nil, nil, errors.New("ref: counter not increasing")
	}
	p.ctrIn[pair] = d.Ctr
	p.usedRecv[pair] = keys.RecvMAC
	if !InGroup(d.NextDH) {
		return nil, nil, errors.New("ref: next DH out of range")
	}
	pl, perr := ParsePlain(CryptData(keys.RecvAES, d.Ctr, d.Enc))
	// rotate
	if d.RecipKeyID == p.OurKeyID {
		p.retireOurs(p.OurKeyID - 1)
		nx, npub := p.exp()
		p.OurKeyID++
		p.ours[p.OurKeyID] = dhPair{nx, npub}
	}
	if d.SenderKeyID == p.TheirKeyID {
		p.retireTheirs(p.TheirKeyID - 1)
		p.TheirKeyID++
		p.theirs[p.TheirKeyID] = d.NextDH
	}
	if perr != nil {
		return nil, nil, perr
	}
	var out [][]byte
	var text []byte
	if len(pl.Text) > 0 {
		text = pl.Text
		p.Received = append(p.Received, text)
	}
	for _, t := range pl.TLVs {
		p.TLVsIn = append(p.TLVsIn, t)
		switch {
		case t.Type == TLVDisconnected:
			p.Encrypted, p.Finished = false, true
			return text, out, nil
		case t.Type == TLVExtraKey:
			p.SymKeys = append(p.SymKeys, keys.Extra)
		case t.Type >= TLVSMP1 && t.Type <= TLVSMP1Q:
			if p.SMPPassive {
				continue
			}
			if r := p.onSMP(t); r != nil {
				out = append(out, p.SendOpts(nil, DataOpts{Flags: 1, TLVs: []TLV{*r}}))
			}
		}
	}
	return text, out, nil
}

func (p *Party) retireOurs(id uint32) {
	for pair, k := range p.usedRecv {
		if pair[0] == id {
			p.oldMACs = append(p.oldMACs, k...)
			delete(p.usedRecv, pair)
		}
	}
	delete(p.ours, id)
}

func (p *Party) retireTheirs(id uint32) {
	for pair, k := range p.usedRecv {
		if pair[1] == id {
			p.oldMACs = append(p.oldMACs, k...)
			delete(p.usedRecv, pair)
		}
	}
	delete(p.theirs, id)
}

// End emits the disconnect message.
func (p *Party) End() []byte {
	m := p.SendOpts(nil, DataOpts{Flags: 1, TLVs: []TLV{{Type: TLVDisconnected}}})
	p.Encrypted = false
	return m
}

// ---- honest SMP automation ----

func (p *Party) smpRnd() *big.Int {
	n := 192
	if p.Version == 2 {
		n = 16
	}
	return new(big.Int).SetBytes(p.Rnd(n))
}

func (p *Party) newSMP(secret []byte, initiator bool) *SMP {
	our, their := Fingerprint(p.Key.PubBytes()), Fingerprint(p.TheirLongBytes)
	var s *big.Int
	if initiator {
		s = SMPSecret(our, their, p.SSID[:], secret)
	} else {
		s = SMPSecret(their, our, p.SSID[:], secret)
	}
	return &SMP{Secret: s, Rnd: p.smpRnd, NoGroupCheck: p.SkipGroupCheck, Short: p.SMPShort}
}

// SMPShortTries reports how many re-draws the current SMP run spent on making its chosen value short.
func (p *Party) SMPShortTries() int {
	if p.smp == nil {
		return p.shortTries
	}
	return p.smp.ShortTries + p.shortTries
}

// SMPStart begins an honest SMP run and returns the message to send.
func (p *Party) SMPStart(secret []byte, question string) []byte {
	p.smp = p.newSMP(secret, true)
	p.smpRole, p.smpStep = 1, 2
	p.SMPResult = SMPOutcome{}
	m := p.smp.Step1()
	typ := uint16(TLVSMP1)
	if question != "" {
		typ = TLVSMP1Q
	}
	return p.SendOpts(nil, DataOpts{Flags: 1, TLVs: []TLV{SMPTLV(typ, []byte(question), m...)}})
}

// SMPAnswer answers a pending SMP1 with the secret.
func (p *Party) SMPAnswer(secret []byte) []byte {
	if p.pendingQ == nil {
		return nil
	}
	p.smp = p.newSMP(secret, false)
	m, err := p.smp.Step2(p.pendingQ)
	p.pendingQ, p.SMPAsked = nil, false
	if err != nil {
		p.SMPResult = SMPOutcome{Done: true, Err: err}
		return p.SendOpts(nil, DataOpts{Flags: 1, TLVs: []TLV{SMPTLV(TLVSMPAbort, nil)}})
	}
	p.smpRole, p.smpStep = 2, 3
	return p.SendOpts(nil, DataOpts{Flags: 1, TLVs: []TLV{SMPTLV(TLVSMP2, nil, m...)}})
}

func (p *Party) smpAbort(err error) *TLV {
	p.SMPResult = SMPOutcome{Done: true, Err: err, Aborted: true}
	p.smpRole, p.smpStep, p.pendingQ = 0, 0, nil
	t := SMPTLV(TLVSMPAbort, nil)
	return &t
}

func (p *Party) onSMP(t TLV) *TLV {
	if t.Type == TLVSMPAbort {
		p.SMPResult = SMPOutcome{Done: true, Aborted: true}
		p.smpRole, p.smpStep, p.pendingQ = 0, 0, nil
		return nil
	}
	q, m, err := ParseSMPTLV(t)
	if err != nil {
		return p.smpAbort(err)
	}
	switch t.Type {
	case TLVSMP1, TLVSMP1Q:
		if p.smpRole != 0 {
			return p.smpAbort(errors.New("ref: SMP1 while a run is in progress"))
		}
		p.pendingQ, p.SMPAsked, p.SMPQ = m, true, string(q)
		p.SMPResult = SMPOutcome{}
		if p.AutoSecret != nil {
			p.smp = p.newSMP(p.AutoSecret, false)
			r, err := p.smp.Step2(m)
			p.pendingQ, p.SMPAsked = nil, false
			if err != nil {
				return p.smpAbort(err)
			}
			p.smpRole, p.smpStep = 2, 3
			x := SMPTLV(TLVSMP2, nil, r...)
			return &x
		}
		return nil
	case TLVSMP2:
		if p.smpRole != 1 || p.smpStep != 2 {
			return p.smpAbort(errors.New("ref: unexpected SMP2"))
		}
		r, err := p.smp.Step3(m)
		if err != nil {
			return p.smpAbort(err)
		}
		p.smpStep = 4
		x := SMPTLV(TLVSMP3, nil, r...)
		return &x
	case TLVSMP3:
		if p.smpRole != 2 || p.smpStep != 3 {
			return p.smpAbort(errors.New("ref: unexpected SMP3"))
		}
		r, match, err := p.smp.Step4(m)
		if err != nil {
			return p.smpAbort(err)
		}
		p.SMPResult = SMPOutcome{Done: true, Match: match}
		p.smpRole, p.smpStep = 0, 0
		x := SMPTLV(TLVSMP4, nil, r...)
		return &x
	case TLVSMP4:
		if p.smpRole != 1 || p.smpStep != 4 {
			return p.smpAbort(errors.New("ref: unexpected SMP4"))
		}
		match, err := p.smp.Step5(m)
		if err != nil {
			return p.smpAbort(err)
		}
		p.SMPResult = SMPOutcome{Done: true, Match: match}
		p.smpRole, p.smpStep = 0, 0
	}
	return nil
}
