package ref

import (
	"bytes"
	"fmt"
	"math/big"
)

// Session is one AKE outcome as reconstructed by the observer.
type Session struct {
	ID         int
	Gx, Gy     *big.Int
	Bob, Alice int // party indices; -1 when the exponent is not known to any party
	Keys       *AKEKeys
	// DH public keys by key id, per participant role (0 = Bob, 1 = Alice)
	Pubs [2]map[uint32]*big.Int
	// long-term keys presented (PUBKEY bytes) by Bob / Alice, nil until seen
	LongBob, LongAlice []byte
	BobDone, AliceDone bool
	Version            uint16
}

func (s *Session) role(party int) int {
	if party == s.Bob {
		return 0
	}
	if party == s.Alice {
		return 1
	}
	return -1
}

// ObsMsg is the observer's analysis of one wire message.
type ObsMsg struct {
	From    int
	Wire    []byte
	Kind    Kind
	Raw     []byte // dearmoured message (after reassembly for fragments)
	Hdr     Header
	IsFrag  bool
	Partial bool // fragment that did not complete a message
	// AKE
	Commit *DHCommit
	DHKey  *DHKey
	Reveal *RevealSig
	Sig    *Signature
	// data
	Data     *DataMsg
	Sess     *Session
	Verified bool // MAC verified with keys derived from the parties' secrets
	Plain    *Plain
	OwnPub   *big.Int
	PeerPub  *big.Int
	MACKey   []byte
	AESKey   []byte
	Extra    []byte
	Issues   []string // deviations from the specification
}

func (m *ObsMsg) issue(format string, a ...interface{}) {
	m.Issues = append(m.Issues, fmt.Sprintf(format, a...))
}

type commitRec struct {
	party int
	r     []byte
	gx    *big.Int
	body  []byte
}

// Observer reconstructs every secret of a run from the parties' randomness.
type Observer struct {
	N        int
	Long     [][]byte // PUBKEY bytes of each party's long-term key (nil if none)
	exps     []map[string][]byte
	expOrder [][][]byte
	rs       [][][]byte
	commits  []*commitRec
	gys      []*big.Int
	gxs      []*big.Int
	dhkeyOut []map[string]bool
	Sessions []*Session
	Msgs     []*ObsMsg
	reasm    []Reassembler
	lastCtr  map[string]uint64
	tags     []uint32
	// Disclosed lists every MAC key disclosed on the wire: key -> first message index
	Disclosed map[string]int
	macKnown  map[string]bool
	// Versions, when set, gives per party the allowed versions as bits (1 = v2, 2 = v3)
	Versions []int
	skCache  map[string]*SessionKeys
	// SendsWS tells per party whether its policy appends whitespace tags; only then
	// is a message containing the tag base judged as a tagged message
	SendsWS []bool
}

// NewObserver creates an observer for n parties.
func NewObserver(n int) *Observer {
	o := &Observer{N: n, Long: make([][]byte, n), lastCtr: map[string]uint64{}, Disclosed: map[string]int{}}
	for i := 0; i < n; i++ {
		o.exps = append(o.exps, map[string][]byte{})
		o.dhkeyOut = append(o.dhkeyOut, map[string]bool{})
	}
	o.expOrder = make([][][]byte, n)
	o.rs = make([][][]byte, n)
	o.reasm = make([]Reassembler, n)
	o.tags = make([]uint32, n)
	return o
}

// LearnExp registers a DH exponent drawn by a party.
func (o *Observer) LearnExp(party int, x []byte) {
	x = append([]byte{}, x...)
	o.exps[party][string(Pub(x).Bytes())] = x
	o.expOrder[party] = append(o.expOrder[party], x)
}

// LearnR registers a 16-byte draw (candidate AKE r).
func (o *Observer) LearnR(party int, r []byte) {
	o.rs[party] = append(o.rs[party], append([]byte{}, r...))
}

// Priv looks up the exponent of a public value drawn by party.
func (o *Observer) Priv(party int, pub *big.Int) []byte {
	if party < 0 || party >= o.N || pub == nil {
		return nil
	}
	return o.exps[party][string(pub.Bytes())]
}

// Owner finds which party drew the exponent of pub (-1: nobody).
func (o *Observer) Owner(pub *big.Int) int {
	for p := 0; p < o.N; p++ {
		if o.Priv(p, pub) != nil {
			return p
		}
	}
	return -1
}

// NoteForeign lets the observer learn candidate DH values from a message that
// was injected or modified by the adversary.
func (o *Observer) NoteForeign(wire []byte) {
	raw, ok := Dearmor(wire)
	if !ok {
		return
	}
	h, err := ParseHeader(raw)
	if err != nil {
		return
	}
	if h.Type == TypeDHKey {
		if k, _, err := ParseDHKey(raw[h.Len:]); err == nil && k.Gy != nil {
			o.gys = append(o.gys, k.Gy)
		}
	}
}

func (o *Observer) session(gx, gy *big.Int) *Session {
	for _, s := range o.Sessions {
		if s.Gx.Cmp(gx) == 0 && s.Gy.Cmp(gy) == 0 {
			return s
		}
	}
	s := &Session{ID: len(o.Sessions) + 1, Gx: gx, Gy: gy, Bob: o.Owner(gx), Alice: o.Owner(gy)}
	s.Pubs[0], s.Pubs[1] = map[uint32]*big.Int{}, map[uint32]*big.Int{}
	// secret as either side computes it
	if x := o.Priv(s.Bob, gx); x != nil {
		s.Keys = DeriveAKE(DH(gy, x))
	} else if y := o.Priv(s.Alice, gy); y != nil {
		s.Keys = DeriveAKE(DH(gx, y))
	}
	o.Sessions = append(o.Sessions, s)
	return s
}

// Observe analyses a message emitted by party `from`.
func (o *Observer) Observe(from int, wire []byte) *ObsMsg {
	m := &ObsMsg{From: from, Wire: wire, Kind: Classify(wire)}
	o.Msgs = append(o.Msgs, m)
	switch m.Kind {
	case KQuery:
		o.checkQuery(m, from, wire)
	case KTagged:
		o.checkTagged(m, from, wire)
	case KUnknownOTR:
		m.issue("emitted an unrecognisable ?OTR message")
	case KFragV2, KFragV3:
		m.IsFrag = true
		f, ok := ParseFragment(wire)
		if !ok {
			m.issue("unparsable fragment")
			return m
		}
		if f.K < 1 || f.N < 1 || f.K > f.N || f.N > 65535 {
			m.issue("fragment index %d of %d out of range", f.K, f.N)
		}
		if want := MakeFragment(f.V3, f.Sender, f.Recv, f.K, f.N, f.Payload); !bytes.Equal(want, wire) {
			m.issue("fragment is not in canonical format")
		}
		if f.V3 {
			o.checkTag(m, from, f.Sender)
		}
		whole, done := o.reasm[from].Add(f)
		if !done {
			m.Partial = true
			return m
		}
		wire = whole
		if Classify(wire) != KEncoded {
			return m
		}
		fallthrough
	case KEncoded:
		raw, ok := Dearmor(wire)
		if !ok {
			m.issue("armour does not decode")
			return m
		}
		m.Raw = raw
		h, err := ParseHeader(raw)
		if err != nil {
			m.issue("header: %v", err)
			return m
		}
		m.Hdr = h
		if h.Version == 3 {
			o.checkTag(m, from, h.Sender)
		}
		body := raw[h.Len:]
		switch h.Type {
		case TypeDHCommit:
			o.obsCommit(m, from, body)
		case TypeDHKey:
			o.obsDHKey(m, from, body)
		case TypeRevealSig:
			o.obsReveal(m, from, body)
		case TypeSignature:
			o.obsSig(m, from, body)
		case TypeData:
			o.obsData(m, from, raw[:h.Len], body)
		default:
			m.issue("unknown message type %#x", h.Type)
		}
	}
	return m
}

func (o *Observer) checkTag(m *ObsMsg, from int, tag uint32) {
	if tag < 0x100 {
		m.issue("sender instance tag %#x below 0x100", tag)
	}
	if o.tags[from] == 0 {
		o.tags[from] = tag
	} else if o.tags[from] != tag {
		m.issue("sender instance tag changed from %#x to %#x", o.tags[from], tag)
	}
}

func (o *Observer) obsCommit(m *ObsMsg, from int, body []byte) {
	c, trailing, err := ParseDHCommit(body)
	if err != nil || trailing != 0 {
		m.issue("DH-Commit malformed (err=%v trailing=%d)", err, trailing)
		return
	}
	m.Commit = c
	for _, old := range o.commits {
		if old.party == from && bytes.Equal(old.body, body) {
			return // retransmission of an earlier commit
		}
	}
	// the commit must be for the most recent exponent with one of the party's r draws
	rs := o.rs[from]
	for i := len(rs) - 1; i >= 0; i-- {
		gx, err := OpenCommit(c, rs[i])
		if err != nil {
			continue
		}
		if o.Priv(from, gx) == nil {
			m.issue("DH-Commit commits to a value whose exponent the party never drew")
		}
		if want := BuildDHCommit(rs[i], gx); !bytes.Equal(want, body) {
			m.issue("DH-Commit differs from the specified encoding")
		}
		o.commits = append(o.commits, &commitRec{from, rs[i], gx, append([]byte{}, body...)})
		o.gxs = append(o.gxs, gx)
		return
	}
	m.issue("DH-Commit cannot be opened with any r the party drew")
}

func (o *Observer) obsDHKey(m *ObsMsg, from int, body []byte) {
	k, trailing, err := ParseDHKey(body)
	if err != nil || trailing != 0 {
		m.issue("DH-Key malformed")
		return
	}
	m.DHKey = k
	if !InGroup(k.Gy) {
		m.issue("DH-Key value out of range")
	}
	if o.Priv(from, k.Gy) == nil {
		m.issue("DH-Key value is not g^y for an exponent the party drew")
	}
	if !bytes.Equal(BuildDHKey(k.Gy), body) {
		m.issue("DH-Key is not minimally encoded")
	}
	o.gys = append(o.gys, k.Gy)
	o.dhkeyOut[from][string(k.Gy.Bytes())] = true
}

func (o *Observer) obsReveal(m *ObsMsg, from int, body []byte) {
	rv, trailing, err := ParseRevealSig(body)
	if err != nil || trailing != 0 {
		m.issue("Reveal-Signature malformed")
		return
	}
	m.Reveal = rv
	var cr *commitRec
	for i := len(o.commits) - 1; i >= 0; i-- {
		if o.commits[i].party == from && bytes.Equal(o.commits[i].r, rv.R) {
			cr = o.commits[i]
			break
		}
	}
	if cr == nil {
		m.issue("Reveal-Signature reveals an r that opens none of the party's commits")
		return
	}
	x := o.Priv(from, cr.gx)
	if x == nil {
		return
	}
	for i := len(o.gys) - 1; i >= 0; i-- {
		gy := o.gys[i]
		k := DeriveAKE(DH(gy, x))
		op, err := OpenSig(k.C, k.M1, k.M2, rv.EncSig, rv.MAC, cr.gx, gy)
		if err != nil {
			if err.Error() == "ref: signature MAC mismatch" {
				continue
			}
			m.issue("Reveal-Signature: %v", err)
			return
		}
		s := o.session(cr.gx, gy)
		s.Version = m.Hdr.Version
		m.Sess = s
		s.LongBob = op.PubBytes
		s.Pubs[0][op.KeyID] = cr.gx
		if len(s.Pubs[1]) == 0 {
			s.Pubs[1][1] = gy
		}
		if o.Long[from] != nil && !bytes.Equal(o.Long[from], op.PubBytes) {
			m.issue("Reveal-Signature carries a public key that is not the party's")
		}
		if !InGroup(gy) {
			m.issue("Reveal-Signature sent for an out-of-range g^y")
		}
		m.Verified = true
		return
	}
	m.issue("Reveal-Signature MAC matches no D-H Key value seen on the wire")
}

func (o *Observer) obsSig(m *ObsMsg, from int, body []byte) {
	sg, trailing, err := ParseSignature(body)
	if err != nil || trailing != 0 {
		m.issue("Signature malformed")
		return
	}
	m.Sig = sg
	for ys := range o.dhkeyOut[from] {
		gy := new(big.Int).SetBytes([]byte(ys))
		y := o.Priv(from, gy)
		if y == nil {
			continue
		}
		for i := len(o.gxs) - 1; i >= 0; i-- {
			gx := o.gxs[i]
			k := DeriveAKE(DH(gx, y))
			op, err := OpenSig(k.Cp, k.M1p, k.M2p, sg.EncSig, sg.MAC, gy, gx)
			if err != nil {
				if err.Error() == "ref: signature MAC mismatch" {
					continue
				}
				m.issue("Signature: %v", err)
				return
			}
			s := o.session(gx, gy)
			if s.Version == 0 {
				s.Version = m.Hdr.Version
			}
			m.Sess = s
			s.LongAlice = op.PubBytes
			s.AliceDone = true
			if op.KeyID != 1 {
				delete(s.Pubs[1], 1)
			}
			s.Pubs[1][op.KeyID] = gy
			if o.Long[from] != nil && !bytes.Equal(o.Long[from], op.PubBytes) {
				m.issue("Signature carries a public key that is not the party's")
			}
			m.Verified = true
			return
		}
	}
	m.issue("Signature MAC matches no (g^x, g^y) pair seen on the wire")
}

func (o *Observer) obsData(m *ObsMsg, from int, header, body []byte) {
	d, err := ParseData(body)
	if err != nil {
		m.issue("data message malformed: %v", err)
		return
	}
	m.Data = d
	if d.Trailing != 0 {
		m.issue("data message has %d trailing bytes", d.Trailing)
	}
	if d.Flags != 0 && d.Flags != 1 {
		m.issue("flags %#x", d.Flags)
	}
	if d.Ctr == 0 {
		m.issue("counter is zero")
	}
	if len(d.OldMACKeys)%20 != 0 {
		m.issue("disclosed MAC key field is not a multiple of 20 bytes")
	}
	if d.SenderKeyID == 0 || d.RecipKeyID == 0 {
		m.issue("key id zero")
	}
	if !InGroup(d.NextDH) {
		m.issue("next DH value out of range")
	}
	if o.Priv(from, d.NextDH) == nil {
		m.issue("next DH value is not g^x for an exponent the party drew")
	}
	for i := 0; i+20 <= len(d.OldMACKeys); i += 20 {
		k := string(d.OldMACKeys[i : i+20])
		if _, ok := o.Disclosed[k]; !ok {
			o.Disclosed[k] = len(o.Msgs) - 1
		}
	}
	for i := len(o.Sessions) - 1; i >= 0; i-- {
		s := o.Sessions[i]
		role := s.role(from)
		if role < 0 {
			continue
		}
		own, peer := s.Pubs[role][d.SenderKeyID], s.Pubs[1-role][d.RecipKeyID]
		if own == nil || peer == nil {
			continue
		}
		priv := o.Priv(from, own)
		if priv == nil {
			continue
		}
		sk := o.derive(priv, own, peer)
		if !bytes.Equal(DataMAC(sk.SendMAC, header, body, d), d.MAC) {
			continue
		}
		m.Sess, m.Verified = s, true
		m.OwnPub, m.PeerPub = own, peer
		m.MACKey, m.AESKey, m.Extra = sk.SendMAC, sk.SendAES, sk.Extra
		if s.Version != 0 && m.Hdr.Version != s.Version {
			m.issue("data message of version %d in a version %d session", m.Hdr.Version, s.Version)
		}
		pl, err := ParsePlain(CryptData(sk.SendAES, d.Ctr, d.Enc))
		m.Plain = pl
		if err != nil {
			m.issue("plaintext TLV area malformed")
		}
		if prev, ok := s.Pubs[role][d.SenderKeyID+1]; ok && prev.Cmp(d.NextDH) != 0 {
			m.issue("next DH value for key id %d changed", d.SenderKeyID+1)
		}
		s.Pubs[role][d.SenderKeyID+1] = d.NextDH
		ck := fmt.Sprintf("%d/%d/%d/%d", s.ID, from, d.SenderKeyID, d.RecipKeyID)
		if d.Ctr <= o.lastCtr[ck] {
			m.issue("counter %d not above previous %d for the same key pair", d.Ctr, o.lastCtr[ck])
		}
		o.lastCtr[ck] = d.Ctr
		// what is given up as "old MAC keys" must be MAC keys: of this party, of some key pair it could form
		for i := 0; i+20 <= len(d.OldMACKeys); i += 20 {
			if k := d.OldMACKeys[i : i+20]; !o.isMACKeyOf(from, s, role, d, k) {
				m.issue("disclosed-key unknown: the field of old MAC keys carries %x, which is no MAC key of any key pair of this party", k)
				break
			}
		}
		return
	}
	m.issue("data message MAC verifies under no key pair derivable from the parties' secrets (sender key %d, recipient key %d)", d.SenderKeyID, d.RecipKeyID)
}

// isMACKeyOf looks for k among the MAC keys of party's key pairs: first near the ids of the message that
// discloses it, then everywhere.
func (o *Observer) isMACKeyOf(party int, s *Session, role int, d *DataMsg, k []byte) bool {
	if o.macKnown == nil {
		o.macKnown = map[string]bool{}
	}
	if o.macKnown[string(k)] {
		return true
	}
	for oid := d.SenderKeyID + 1; oid+6 > d.SenderKeyID && oid > 0; oid-- {
		opub := s.Pubs[role][oid]
		if opub == nil {
			continue
		}
		priv := o.Priv(party, opub)
		if priv == nil {
			continue
		}
		for tid := d.RecipKeyID + 1; tid+6 > d.RecipKeyID && tid > 0; tid-- {
			tpub := s.Pubs[1-role][tid]
			if tpub == nil {
				continue
			}
			sk := o.derive(priv, opub, tpub)
			o.macKnown[string(sk.SendMAC)], o.macKnown[string(sk.RecvMAC)] = true, true
		}
	}
	if o.macKnown[string(k)] {
		return true
	}
	for _, ss := range o.Sessions {
		for _, pk := range o.PairKeys(party, ss) {
			o.macKnown[string(pk.SendMAC)], o.macKnown[string(pk.RecvMAC)] = true, true
		}
	}
	return o.macKnown[string(k)]
}

// MACKeysOf enumerates the MAC keys (both directions) of every key pair of a session known so far:
// name "s<id> <roleA>:<ida>/<idb> send|recv".
type PairKey struct {
	Sess       *Session
	Role       int // whose perspective (0 Bob, 1 Alice)
	Own, Their uint32
	SendMAC    []byte
	RecvMAC    []byte
}

// PairKeys derives the keys of every (own id, their id) combination party could form in session s.
func (o *Observer) PairKeys(party int, s *Session) []PairKey {
	role := s.role(party)
	if role < 0 {
		return nil
	}
	var out []PairKey
	for oid, opub := range s.Pubs[role] {
		priv := o.Priv(party, opub)
		if priv == nil {
			continue
		}
		for tid, tpub := range s.Pubs[1-role] {
			sk := o.derive(priv, opub, tpub)
			out = append(out, PairKey{s, role, oid, tid, sk.SendMAC, sk.RecvMAC})
		}
	}
	return out
}

// LatestSession returns the newest session in which party takes part and which completed on its side.
func (o *Observer) LatestSession(party int) *Session {
	for i := len(o.Sessions) - 1; i >= 0; i-- {
		if o.Sessions[i].role(party) >= 0 {
			return o.Sessions[i]
		}
	}
	return nil
}

func (o *Observer) allowed(from int) (v2, v3, known bool) {
	if o.Versions == nil || from >= len(o.Versions) {
		return false, false, false
	}
	return o.Versions[from]&1 != 0, o.Versions[from]&2 != 0, true
}

func (o *Observer) checkQuery(m *ObsMsg, from int, wire []byte) {
	vs, ok := ParseQuery(wire)
	if !ok {
		m.issue("query message does not parse")
		return
	}
	v2, v3, known := o.allowed(from)
	if !known {
		return
	}
	has := map[int]bool{}
	for _, v := range vs {
		has[v] = true
	}
	if has[2] != v2 || has[3] != v3 || has[1] {
		m.issue("query offers versions %v but the policy allows v2=%v v3=%v", vs, v2, v3)
	}
}

func (o *Observer) checkTagged(m *ObsMsg, from int, wire []byte) {
	if o.SendsWS == nil || from >= len(o.SendsWS) || !o.SendsWS[from] {
		return // user text that happens to contain the tag base
	}
	i := bytes.LastIndex(wire, WSBase)
	rest := wire[i+len(WSBase):]
	v2, v3, known := o.allowed(from)
	var got2, got3 bool
	for len(rest) >= 8 {
		switch {
		case bytes.Equal(rest[:8], WSV2):
			got2 = true
		case bytes.Equal(rest[:8], WSV3):
			got3 = true
		default:
			m.issue("whitespace tag followed by an unknown 8-byte group")
		}
		rest = rest[8:]
	}
	if len(rest) != 0 {
		m.issue("whitespace tag is not at the end of the message")
	}
	if known && (got2 != v2 || got3 != v3) {
		m.issue("whitespace tag offers v2=%v v3=%v but the policy allows v2=%v v3=%v", got2, got3, v2, v3)
	}
}

// derive memoises DeriveSession.
func (o *Observer) derive(priv []byte, own, their *big.Int) *SessionKeys {
	if o.skCache == nil {
		o.skCache = map[string]*SessionKeys{}
	}
	k := string(own.Bytes()) + "|" + string(their.Bytes())
	if sk, ok := o.skCache[k]; ok {
		return sk
	}
	sk := DeriveSession(priv, own, their)
	o.skCache[k] = sk
	return sk
}
