package ref

import (
	"bytes"
	"crypto/dsa"
	"errors"
	"fmt"
	"math/big"
)

var zeroIV = make([]byte, 16)

// DHCommit is the body of a D-H Commit message.
type DHCommit struct {
	EncGx  []byte
	HashGx []byte
}

// DHKey is the body of a D-H Key message.
type DHKey struct{ Gy *big.Int }

// RevealSig is the body of a Reveal Signature message.
type RevealSig struct {
	R      []byte
	EncSig []byte
	MAC    []byte
}

// Signature is the body of a Signature message.
type Signature struct {
	EncSig []byte
	MAC    []byte
}

// ParseDHCommit parses a body; trailing bytes are reported.
func ParseDHCommit(b []byte) (*DHCommit, int, error) {
	r := &Rd{B: b}
	m := &DHCommit{EncGx: r.Data(), HashGx: r.Data()}
	return m, len(r.Rest()), r.Err
}

// ParseDHKey parses a body.
func ParseDHKey(b []byte) (*DHKey, int, error) {
	r := &Rd{B: b}
	m := &DHKey{Gy: r.MPI()}
	return m, len(r.Rest()), r.Err
}

// ParseRevealSig parses a body.
func ParseRevealSig(b []byte) (*RevealSig, int, error) {
	r := &Rd{B: b}
	m := &RevealSig{R: r.Data(), EncSig: r.Data(), MAC: r.Bytes(20)}
	return m, len(r.Rest()), r.Err
}

// ParseSignature parses a body.
func ParseSignature(b []byte) (*Signature, int, error) {
	r := &Rd{B: b}
	m := &Signature{EncSig: r.Data(), MAC: r.Bytes(20)}
	return m, len(r.Rest()), r.Err
}

// BuildDHCommit makes the body for secret r (16 bytes) and public value gx.
func BuildDHCommit(r []byte, gx *big.Int) []byte {
	mpi := PutMPI(nil, gx)
	b := PutData(nil, aesCTR(r, zeroIV, mpi))
	return PutData(b, sha256of(mpi))
}

// BuildDHKey makes the body.
func BuildDHKey(gy *big.Int) []byte { return PutMPI(nil, gy) }

// sigInput is M = HMAC_m1(MPI ours, MPI theirs, PUBKEY, INT keyid).
func sigInput(m1 []byte, ours, theirs *big.Int, pub []byte, keyid uint32) []byte {
	return hmac256(m1, PutMPI(nil, ours), PutMPI(nil, theirs), pub, PutU32(nil, keyid))
}

// SealSig builds DATA AES_c(X) || MAC_m2(DATA AES_c(X))[:20].
// signKey signs; advertise is the PUBKEY placed in X (normally signKey's own).
func SealSig(c, m1, m2 []byte, ours, theirs *big.Int, signKey *DSAKey, advertise []byte, keyid uint32, rand interface{ Read([]byte) (int, error) }) ([]byte, error) {
	m := sigInput(m1, ours, theirs, advertise, keyid)
	sig, err := signKey.Sign(rand, m)
	if err != nil {
		return nil, err
	}
	x := append(append([]byte{}, advertise...), PutU32(nil, keyid)...)
	x = append(x, sig...)
	enc := PutData(nil, aesCTR(c, zeroIV, x))
	return append(enc, hmac256(m2, enc)[:20]...), nil
}

// OpenedSig is what a verified encrypted signature contains.
type OpenedSig struct {
	Pub      *dsa.PublicKey
	PubBytes []byte
	KeyID    uint32
}

// OpenSig checks MAC, decrypts and verifies X against the signer's view:
// signerDH is the signer's DH public value, otherDH the verifier's.
func OpenSig(c, m1, m2 []byte, encSig, mac []byte, signerDH, otherDH *big.Int) (*OpenedSig, error) {
	if !bytes.Equal(hmac256(m2, PutData(nil, encSig))[:20], mac) {
		return nil, errors.New("ref: signature MAC mismatch")
	}
	x := aesCTR(c, zeroIV, encSig)
	r := &Rd{B: x}
	pk := ParsePub(r)
	pubEnd := r.Off
	keyid := r.U32()
	sig := r.Bytes(40)
	if r.Err != nil {
		return nil, fmt.Errorf("ref: X malformed: %v", r.Err)
	}
	if len(r.Rest()) != 0 {
		return nil, errors.New("ref: trailing bytes in X")
	}
	pubBytes := x[:pubEnd]
	m := sigInput(m1, signerDH, otherDH, pubBytes, keyid)
	if !Verify(pk, m, sig) {
		return nil, errors.New("ref: bad DSA signature")
	}
	if keyid == 0 {
		return nil, errors.New("ref: key id 0")
	}
	return &OpenedSig{Pub: pk, PubBytes: append([]byte{}, pubBytes...), KeyID: keyid}, nil
}

// BuildRevealSig builds the body of a Reveal Signature message (Bob's side).
func BuildRevealSig(k *AKEKeys, r []byte, gx, gy *big.Int, signKey *DSAKey, advertise []byte, keyid uint32, rand interface{ Read([]byte) (int, error) }) ([]byte, error) {
	sealed, err := SealSig(k.C, k.M1, k.M2, gx, gy, signKey, advertise, keyid, rand)
	if err != nil {
		return nil, err
	}
	return append(PutData(nil, r), sealed...), nil
}

// BuildSignature builds the body of a Signature message (Alice's side).
func BuildSignature(k *AKEKeys, gy, gx *big.Int, signKey *DSAKey, advertise []byte, keyid uint32, rand interface{ Read([]byte) (int, error) }) ([]byte, error) {
	return SealSig(k.Cp, k.M1p, k.M2p, gy, gx, signKey, advertise, keyid, rand)
}

// OpenCommit decrypts a commit with r and checks the hash; returns g^x.
func OpenCommit(c *DHCommit, r []byte) (*big.Int, error) {
	if len(r) != 16 {
		return nil, errors.New("ref: r length")
	}
	mpi := aesCTR(r, zeroIV, c.EncGx)
	if !bytes.Equal(sha256of(mpi), c.HashGx) {
		return nil, errors.New("ref: commitment hash mismatch")
	}
	rd := &Rd{B: mpi}
	gx := rd.MPI()
	if rd.Err != nil || len(rd.Rest()) != 0 {
		return nil, errors.New("ref: committed value malformed")
	}
	if !InGroup(gx) {
		return nil, errors.New("ref: g^x out of range")
	}
	return gx, nil
}
