package ref

import (
	"errors"
	"fmt"
	"math/big"
)

// SMPSecret is SHA256(0x01 || fp(initiator) || fp(responder) || ssid || secret).
func SMPSecret(initFP, respFP, ssid, secret []byte) *big.Int {
	return new(big.Int).SetBytes(sha256of([]byte{1}, initFP, respFP, ssid, secret))
}

func hashInt(v byte, a ...*big.Int) *big.Int {
	parts := [][]byte{{v}}
	for _, x := range a {
		parts = append(parts, PutMPI(nil, x))
	}
	return new(big.Int).SetBytes(sha256of(parts...))
}

func expP(b, e *big.Int) *big.Int { return new(big.Int).Exp(b, e, P) }
func mulP(a, b *big.Int) *big.Int { return new(big.Int).Mod(new(big.Int).Mul(a, b), P) }
func subQ(a, b *big.Int) *big.Int { return new(big.Int).Mod(new(big.Int).Sub(a, b), Q) }
func mulI(a, b *big.Int) *big.Int { return new(big.Int).Mul(a, b) }

func divP(a, b *big.Int) (*big.Int, error) {
	inv := new(big.Int).ModInverse(b, P)
	if inv == nil {
		return nil, errors.New("ref: division by a non-invertible element")
	}
	return mulP(a, inv), nil
}

// SMP holds one side's state of a run.
type SMP struct {
	Secret *big.Int
	// Rnd yields the next random exponent.
	Rnd func() *big.Int
	// NoGroupCheck disables the range checks (to model a lenient peer); the
	// specification requires them, so the oracle leaves this false.
	NoGroupCheck bool

	a2, a3, b2, b3   *big.Int
	g2, g3           *big.Int
	g3a, g3b         *big.Int
	pb, qb           *big.Int
	papb, qaqb       *big.Int
	ForceA2, ForceA3 *big.Int // when set, used instead of random exponents (degenerate provers)
	ForceB2, ForceB3 *big.Int
	// Short names one value of the messages this side builds ("g2a", "c2", "d2", ... see the step functions) that
	// is to come out with a zero top byte, i.e. one byte shorter than usual once serialised as an MPI. An honest
	// prover hits each of these by chance once in 128-256 runs; the randomness is simply re-drawn until it does.
	Short string
	// ShortTries counts the re-draws spent on it.
	ShortTries int
}

func isShort(v *big.Int, full int) bool { return v.BitLen() <= full-8 && v.Sign() > 0 }

// want reports whether the value called name is the one to be made short and is not short yet.
func (s *SMP) redo(name string, v *big.Int, full int) bool {
	if s.Short != name || isShort(v, full) || s.ShortTries > 20000 {
		return false
	}
	s.ShortTries++
	return true
}

// shortExp draws an exponent (or takes the forced one) and returns it with base^e, re-drawing while the power has to be short and is not.
func (s *SMP) shortExp(name string, force *big.Int, base *big.Int) (e, v *big.Int) {
	for {
		e = pick(force, s.Rnd)
		v = expP(base, e)
		if force != nil || !s.redo(name, v, 1536) {
			return
		}
	}
}

// proofLog builds the proof of knowledge (c, d) of x for generator G with hash version ver.
func (s *SMP) proofLog(ver byte, x *big.Int, cName, dName string) (c, d *big.Int) {
	for {
		r := s.Rnd()
		c = hashInt(ver, expP(G, r))
		d = subQ(r, mulI(x, c))
		if !s.redo(cName, c, 256) && !s.redo(dName, d, 1535) {
			return
		}
	}
}

func (s *SMP) group(name string, v *big.Int) error {
	if s.NoGroupCheck {
		return nil
	}
	if !InGroup(v) {
		return fmt.Errorf("ref: %s out of range", name)
	}
	return nil
}

func pick(force *big.Int, rnd func() *big.Int) *big.Int {
	v := rnd()
	if force != nil {
		return force
	}
	return v
}

// coords draws r4 and sets s.pb = g3^r4, s.qb = g1^r4 g2^secret with the proof (cP, D5, D6) under hash version ver.
func (s *SMP) coords(ver byte, pName, qName, cName, d5Name, d6Name string) (r4, cp, d5, d6 *big.Int) {
	for {
		r4 = s.Rnd()
		s.pb = expP(s.g3, r4)
		s.qb = mulP(expP(G, r4), expP(s.g2, s.Secret))
		if !s.redo(pName, s.pb, 1536) && !s.redo(qName, s.qb, 1536) {
			break
		}
	}
	for {
		r5, r6 := s.Rnd(), s.Rnd()
		cp = hashInt(ver, expP(s.g3, r5), mulP(expP(G, r5), expP(s.g2, r6)))
		d5 = subQ(r5, mulI(r4, cp))
		d6 = subQ(r6, mulI(s.Secret, cp))
		if !s.redo(cName, cp, 256) && !s.redo(d5Name, d5, 1535) && !s.redo(d6Name, d6, 1535) {
			return
		}
	}
}

// proofEq proves that x is the discrete log of g^x and of (Qa/Qb)^x (cR, D7).
func (s *SMP) proofEq(ver byte, x *big.Int, cName, dName string) (cr, d7 *big.Int) {
	for {
		r7 := s.Rnd()
		cr = hashInt(ver, expP(G, r7), expP(s.qaqb, r7))
		d7 = subQ(r7, mulI(x, cr))
		if !s.redo(cName, cr, 256) && !s.redo(dName, d7, 1535) {
			return
		}
	}
}

// Step1 builds [g2a, c2, D2, g3a, c3, D3].
func (s *SMP) Step1() []*big.Int {
	var g2a, g3a *big.Int
	s.a2, g2a = s.shortExp("g2a", s.ForceA2, G)
	s.a3, g3a = s.shortExp("g3a", s.ForceA3, G)
	c2, d2 := s.proofLog(1, s.a2, "c2", "d2")
	c3, d3 := s.proofLog(2, s.a3, "c3", "d3")
	return []*big.Int{g2a, c2, d2, g3a, c3, d3}
}

func checkLog(v byte, c, d, gen *big.Int) bool {
	return c.Cmp(hashInt(v, mulP(expP(G, d), expP(gen, c)))) == 0
}

// Verify1 applies the checks the receiver of message 1 must make.
func (s *SMP) Verify1(m []*big.Int) error {
	if len(m) != 6 {
		return errors.New("ref: SMP1 needs 6 values")
	}
	if err := s.group("g2a", m[0]); err != nil {
		return err
	}
	if err := s.group("g3a", m[3]); err != nil {
		return err
	}
	if !checkLog(1, m[1], m[2], m[0]) {
		return errors.New("ref: SMP1 c2 proof")
	}
	if !checkLog(2, m[4], m[5], m[3]) {
		return errors.New("ref: SMP1 c3 proof")
	}
	return nil
}

// Step2 verifies message 1 and builds [g2b,c2,D2,g3b,c3,D3,Pb,Qb,cP,D5,D6].
func (s *SMP) Step2(m []*big.Int) ([]*big.Int, error) {
	if err := s.Verify1(m); err != nil {
		return nil, err
	}
	g2a, g3a := m[0], m[3]
	s.g3a = g3a
	var g2b, g3b *big.Int
	s.b2, g2b = s.shortExp("g2b", s.ForceB2, G)
	s.b3, g3b = s.shortExp("g3b", s.ForceB3, G)
	c2, d2 := s.proofLog(3, s.b2, "c2b", "d2b")
	c3, d3 := s.proofLog(4, s.b3, "c3b", "d3b")
	s.g2, s.g3 = expP(g2a, s.b2), expP(g3a, s.b3)
	r4, cp, d5, d6 := s.coords(5, "pb", "qb", "cp", "d5", "d6")
	_ = r4
	return []*big.Int{g2b, c2, d2, g3b, c3, d3, s.pb, s.qb, cp, d5, d6}, nil
}

func checkCoords(v byte, cp, d5, d6, g2, g3, pp, qq *big.Int) bool {
	l := mulP(expP(g3, d5), expP(pp, cp))
	r := mulP(mulP(expP(G, d5), expP(g2, d6)), expP(qq, cp))
	return cp.Cmp(hashInt(v, l, r)) == 0
}

// Verify2 applies the initiator's checks of message 2 and returns g2, g3.
func (s *SMP) Verify2(m []*big.Int) (g2, g3 *big.Int, err error) {
	if len(m) != 11 {
		return nil, nil, errors.New("ref: SMP2 needs 11 values")
	}
	for i, n := range map[int]string{0: "g2b", 3: "g3b", 6: "Pb", 7: "Qb"} {
		if err := s.group(n, m[i]); err != nil {
			return nil, nil, err
		}
	}
	if !checkLog(3, m[1], m[2], m[0]) {
		return nil, nil, errors.New("ref: SMP2 c2 proof")
	}
	if !checkLog(4, m[4], m[5], m[3]) {
		return nil, nil, errors.New("ref: SMP2 c3 proof")
	}
	g2, g3 = expP(m[0], s.a2), expP(m[3], s.a3)
	if !checkCoords(5, m[8], m[9], m[10], g2, g3, m[6], m[7]) {
		return nil, nil, errors.New("ref: SMP2 cP proof")
	}
	return g2, g3, nil
}

// Step3 verifies message 2 and builds [Pa,Qa,cP,D5,D6,Ra,cR,D7].
func (s *SMP) Step3(m []*big.Int) ([]*big.Int, error) {
	g2, g3, err := s.Verify2(m)
	if err != nil {
		return nil, err
	}
	s.g2, s.g3, s.g3b = g2, g3, m[3]
	pb, qb := m[6], m[7]
	s.pb, s.qb = nil, nil
	_, cp, d5, d6 := s.coords(6, "pa", "qa", "cpa", "d5a", "d6a")
	pa, qa := s.pb, s.qb
	s.pb, s.qb = pb, qb
	if s.qaqb, err = divP(qa, qb); err != nil {
		return nil, err
	}
	if s.papb, err = divP(pa, pb); err != nil {
		return nil, err
	}
	ra := expP(s.qaqb, s.a3)
	cr, d7 := s.proofEq(7, s.a3, "cr", "d7")
	return []*big.Int{pa, qa, cp, d5, d6, ra, cr, d7}, nil
}

func checkEqLogs(v byte, cr, d7, gx, base, rr *big.Int) bool {
	l := mulP(expP(G, d7), expP(gx, cr))
	r := mulP(expP(base, d7), expP(rr, cr))
	return cr.Cmp(hashInt(v, l, r)) == 0
}

// Verify3 applies the responder's checks of message 3.
func (s *SMP) Verify3(m []*big.Int) (qaqb *big.Int, err error) {
	if len(m) != 8 {
		return nil, errors.New("ref: SMP3 needs 8 values")
	}
	for i, n := range map[int]string{0: "Pa", 1: "Qa", 5: "Ra"} {
		if err := s.group(n, m[i]); err != nil {
			return nil, err
		}
	}
	if !checkCoords(6, m[2], m[3], m[4], s.g2, s.g3, m[0], m[1]) {
		return nil, errors.New("ref: SMP3 cP proof")
	}
	if qaqb, err = divP(m[1], s.qb); err != nil {
		return nil, err
	}
	if !checkEqLogs(7, m[6], m[7], s.g3a, qaqb, m[5]) {
		return nil, errors.New("ref: SMP3 cR proof")
	}
	return qaqb, nil
}

// Step4 verifies message 3, builds [Rb,cR,D7] and reports whether the secrets matched.
func (s *SMP) Step4(m []*big.Int) (out []*big.Int, match bool, err error) {
	qaqb, err := s.Verify3(m)
	if err != nil {
		return nil, false, err
	}
	papb, err := divP(m[0], s.pb)
	if err != nil {
		return nil, false, err
	}
	rb := expP(qaqb, s.b3)
	s.qaqb = qaqb
	cr, d7 := s.proofEq(8, s.b3, "crb", "d7b")
	match = expP(m[5], s.b3).Cmp(papb) == 0
	return []*big.Int{rb, cr, d7}, match, nil
}

// Step5 verifies message 4 and reports whether the secrets matched.
func (s *SMP) Step5(m []*big.Int) (match bool, err error) {
	if len(m) != 3 {
		return false, errors.New("ref: SMP4 needs 3 values")
	}
	if err := s.group("Rb", m[0]); err != nil {
		return false, err
	}
	if !checkEqLogs(8, m[1], m[2], s.g3b, s.qaqb, m[0]) {
		return false, errors.New("ref: SMP4 cR proof")
	}
	return expP(m[0], s.a3).Cmp(s.papb) == 0, nil
}

// G2G3 exposes the shared generators computed so far (for building re-sealed deviant messages).
func (s *SMP) G2G3() (*big.Int, *big.Int) { return s.g2, s.g3 }

// Reseal2 rewrites message 2 so that Pb = 1 and Qb = qb (which may be 0 or p) carry a proof that verifies:
// with Pb = 1 the first proof component no longer depends on cP, and with Qb = 0 mod p the second is 0.
func (s *SMP) Reseal2(m []*big.Int, qb *big.Int, d5, d6 *big.Int) []*big.Int {
	out := append([]*big.Int{}, m...)
	out[6], out[7] = big.NewInt(1), qb
	l := expP(s.g3, d5)
	r := new(big.Int)
	if new(big.Int).Mod(qb, P).Sign() != 0 {
		return out
	}
	out[8] = hashInt(5, l, r)
	out[9], out[10] = d5, d6
	return out
}

// ResealLog produces a proof (c, D) of "knowledge of the logarithm" that verifies for the element p-1:
// with c even, (p-1)^c = 1, so c = H(ver, g^r) and D = r satisfy the verification equation.
func ResealLog(ver byte, rnd func() *big.Int) (c, d *big.Int) {
	for i := 0; i < 64; i++ {
		r := new(big.Int).Mod(rnd(), Q)
		c = hashInt(ver, expP(G, r))
		if c.Bit(0) == 0 {
			return c, r
		}
	}
	return c, new(big.Int)
}

// SharedG3 computes g3 = g3b^a3 from the initiator's side without needing the rest of message 2 to be well formed.
func (s *SMP) SharedG3(g3b *big.Int) *big.Int { return expP(g3b, s.a3) }

// ResealZero gives a "proof of knowledge" that verifies for the element 0 (or any multiple of p):
// g^D * 0^c = 0 for c > 0, so c = H(ver, 0) with any D passes the check.
func ResealZero(ver byte) (c, d *big.Int) { return hashInt(ver, new(big.Int)), big.NewInt(7) }

// ZeroQbMessage3 builds an SMP message 3 for a victim whose own Qb became 0 (because g2 = 0): Pa = Qa = 1 and
// cP = H(6, g3^D5, 0) verifies, after which the receiver has to divide by its Qb.
func ZeroQbMessage3(g3, d5, d6 *big.Int) []*big.Int {
	cp := hashInt(6, expP(g3, d5), new(big.Int))
	one := big.NewInt(1)
	return []*big.Int{one, one, cp, d5, d6, big.NewInt(2), big.NewInt(3), big.NewInt(4)}
}
