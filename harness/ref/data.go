package ref

import (
	"bytes"
	"errors"
	"math/big"
)

// DataMsg is a parsed data message (body after the header).
type DataMsg struct {
	Flags       byte
	SenderKeyID uint32
	RecipKeyID  uint32
	NextDH      *big.Int
	Ctr         uint64
	Enc         []byte
	MAC         []byte
	OldMACKeys  []byte
	// AuthLen is the number of body bytes covered by the MAC (through Enc);
	// offsets below are relative to the body start.
	AuthLen  int
	Trailing int
	Fields   map[string][2]int // field name -> [start,end) in the body
}

// ParseData parses the body of a data message.
func ParseData(body []byte) (*DataMsg, error) {
	r := &Rd{B: body}
	m := &DataMsg{Fields: map[string][2]int{}}
	mark := func(name string, from int) { m.Fields[name] = [2]int{from, r.Off} }
	o := r.Off
	m.Flags = r.U8()
	mark("flags", o)
	o = r.Off
	m.SenderKeyID = r.U32()
	mark("senderkeyid", o)
	o = r.Off
	m.RecipKeyID = r.U32()
	mark("recipkeyid", o)
	o = r.Off
	m.NextDH = r.MPI()
	mark("nextdh", o)
	o = r.Off
	m.Ctr = r.U64()
	mark("ctr", o)
	o = r.Off
	m.Enc = r.Data()
	mark("enc", o)
	m.AuthLen = r.Off
	o = r.Off
	m.MAC = r.Bytes(20)
	mark("mac", o)
	o = r.Off
	m.OldMACKeys = r.Data()
	mark("oldmackeys", o)
	m.Trailing = len(r.Rest())
	return m, r.Err
}

// BuildData serialises a data message body and computes its MAC over header||body-to-enc.
func BuildData(header []byte, flags byte, sender, recip uint32, nextDH *big.Int, ctr uint64, enc []byte, macKey []byte, oldKeys []byte) []byte {
	b := []byte{flags}
	b = PutU32(b, sender)
	b = PutU32(b, recip)
	b = PutMPI(b, nextDH)
	b = PutU64(b, ctr)
	b = PutData(b, enc)
	mac := hmac1(macKey, header, b)
	b = append(b, mac...)
	return PutData(b, oldKeys)
}

// DataMAC recomputes the MAC of a parsed message.
func DataMAC(macKey, header, body []byte, m *DataMsg) []byte {
	return hmac1(macKey, header, body[:m.AuthLen])
}

// CryptData en/deciphers the payload with the top-half counter.
func CryptData(aesKey []byte, ctr uint64, in []byte) []byte {
	iv := make([]byte, 16)
	copy(iv, PutU64(nil, ctr))
	return aesCTR(aesKey, iv, in)
}

// TLV is one type-length-value record.
type TLV struct {
	Type uint16
	Val  []byte
}

// Plain is the decrypted content of a data message.
type Plain struct {
	Text   []byte
	HasNUL bool
	TLVs   []TLV
}

// ParsePlain splits text, NUL and TLVs; an error means a malformed TLV area.
func ParsePlain(p []byte) (*Plain, error) {
	out := &Plain{}
	i := bytes.IndexByte(p, 0)
	if i < 0 {
		out.Text = p
		return out, nil
	}
	out.Text, out.HasNUL = p[:i], true
	r := &Rd{B: p[i+1:]}
	for len(r.Rest()) > 0 {
		t := r.U16()
		l := r.U16()
		v := r.Bytes(int(l))
		if r.Err != nil {
			return out, errors.New("ref: malformed TLV")
		}
		out.TLVs = append(out.TLVs, TLV{t, v})
	}
	return out, nil
}

// PutPlain serialises text and TLVs (NUL only when there are TLVs or forced).
func PutPlain(text []byte, tlvs []TLV) []byte {
	b := append([]byte{}, text...)
	if len(tlvs) == 0 {
		return b
	}
	b = append(b, 0)
	for _, t := range tlvs {
		b = PutU16(b, t.Type)
		b = PutU16(b, uint16(len(t.Val)))
		b = append(b, t.Val...)
	}
	return b
}

// SMPTLV builds an SMP TLV value: INT count, MPIs.
func SMPTLV(typ uint16, question []byte, mpis ...*big.Int) TLV {
	var v []byte
	if typ == TLVSMP1Q {
		v = append(append(v, question...), 0)
	}
	v = PutU32(v, uint32(len(mpis)))
	for _, m := range mpis {
		v = PutMPI(v, m)
	}
	return TLV{typ, v}
}

// ParseSMPTLV extracts the question (type 7) and the MPIs.
func ParseSMPTLV(t TLV) (question []byte, mpis []*big.Int, err error) {
	v := t.Val
	if t.Type == TLVSMP1Q {
		i := bytes.IndexByte(v, 0)
		if i < 0 {
			return nil, nil, errors.New("ref: question without terminator")
		}
		question, v = v[:i], v[i+1:]
	}
	r := &Rd{B: v}
	n := r.U32()
	if r.Err != nil {
		return question, nil, r.Err
	}
	if uint64(n) > uint64(len(r.Rest()))/4+1 {
		return question, nil, errors.New("ref: MPI count exceeds data")
	}
	for i := uint32(0); i < n; i++ {
		mpis = append(mpis, r.MPI())
	}
	return question, mpis, r.Err
}
