// Package ref is an independent implementation of the OTR v2/v3 protocol
// written from the protocol documents. It imports nothing from otr3; it is the
// oracle (observer), the misbehaving authenticated peer and the field-aware
// mutator of the property checks.
package ref

import (
	"bytes"
	"encoding/base64"
	"encoding/binary"
	"errors"
	"fmt"
	"math/big"
	"strconv"
)

// Message type bytes.
const (
	TypeDHCommit  = 0x02
	TypeData      = 0x03
	TypeDHKey     = 0x0a
	TypeRevealSig = 0x11
	TypeSignature = 0x12
)

// TLV types.
const (
	TLVPadding      = 0
	TLVDisconnected = 1
	TLVSMP1         = 2
	TLVSMP2         = 3
	TLVSMP3         = 4
	TLVSMP4         = 5
	TLVSMPAbort     = 6
	TLVSMP1Q        = 7
	TLVExtraKey     = 8
)

var errShort = errors.New("ref: truncated")

// Rd is a cursor over bytes.
type Rd struct {
	B   []byte
	Off int
	Err error
}

func (r *Rd) need(n int) bool {
	if r.Err != nil {
		return false
	}
	if n < 0 || len(r.B)-r.Off < n {
		r.Err = errShort
		return false
	}
	return true
}

// U8 reads a BYTE.
func (r *Rd) U8() byte {
	if !r.need(1) {
		return 0
	}
	v := r.B[r.Off]
	r.Off++
	return v
}

// U16 reads a SHORT.
func (r *Rd) U16() uint16 {
	if !r.need(2) {
		return 0
	}
	v := binary.BigEndian.Uint16(r.B[r.Off:])
	r.Off += 2
	return v
}

// U32 reads an INT.
func (r *Rd) U32() uint32 {
	if !r.need(4) {
		return 0
	}
	v := binary.BigEndian.Uint32(r.B[r.Off:])
	r.Off += 4
	return v
}

// U64 reads 8 bytes.
func (r *Rd) U64() uint64 {
	if !r.need(8) {
		return 0
	}
	v := binary.BigEndian.Uint64(r.B[r.Off:])
	r.Off += 8
	return v
}

// Bytes reads n raw bytes.
func (r *Rd) Bytes(n int) []byte {
	if !r.need(n) {
		return nil
	}
	v := r.B[r.Off : r.Off+n]
	r.Off += n
	return v
}

// Data reads a DATA field.
func (r *Rd) Data() []byte {
	n := r.U32()
	if r.Err != nil {
		return nil
	}
	if uint64(n) > uint64(len(r.B)-r.Off) {
		r.Err = errShort
		return nil
	}
	return r.Bytes(int(n))
}

// MPI reads an MPI.
func (r *Rd) MPI() *big.Int {
	d := r.Data()
	if r.Err != nil {
		return nil
	}
	return new(big.Int).SetBytes(d)
}

// Rest returns the unread bytes.
func (r *Rd) Rest() []byte { return r.B[r.Off:] }

// PutU16 etc. append encodings.
func PutU16(b []byte, v uint16) []byte { return append(b, byte(v>>8), byte(v)) }
func PutU32(b []byte, v uint32) []byte {
	return append(b, byte(v>>24), byte(v>>16), byte(v>>8), byte(v))
}
func PutU64(b []byte, v uint64) []byte {
	var x [8]byte
	binary.BigEndian.PutUint64(x[:], v)
	return append(b, x[:]...)
}
func PutData(b, d []byte) []byte { return append(PutU32(b, uint32(len(d))), d...) }
func PutMPI(b []byte, v *big.Int) []byte {
	return PutData(b, v.Bytes()) // big.Int.Bytes is minimal; zero has length 0
}

// Armor wraps a binary message as "?OTR:" base64 ".".
func Armor(msg []byte) []byte {
	out := []byte("?OTR:")
	out = append(out, base64.StdEncoding.EncodeToString(msg)...)
	return append(out, '.')
}

// Dearmor undoes Armor.
func Dearmor(wire []byte) ([]byte, bool) {
	if !bytes.HasPrefix(wire, []byte("?OTR:")) || len(wire) < 6 || wire[len(wire)-1] != '.' {
		return nil, false
	}
	d, err := base64.StdEncoding.DecodeString(string(wire[5 : len(wire)-1]))
	if err != nil {
		return nil, false
	}
	return d, true
}

// Header of an encoded message.
type Header struct {
	Version uint16
	Type    byte
	Sender  uint32 // v3 only
	Recv    uint32 // v3 only
	Len     int    // header length in bytes
}

// ParseHeader reads the version-dependent header.
func ParseHeader(msg []byte) (Header, error) {
	r := &Rd{B: msg}
	var h Header
	h.Version = r.U16()
	h.Type = r.U8()
	if r.Err != nil {
		return h, r.Err
	}
	switch h.Version {
	case 2:
		h.Len = 3
	case 3:
		h.Sender = r.U32()
		h.Recv = r.U32()
		h.Len = 11
	default:
		return h, fmt.Errorf("ref: version %d", h.Version)
	}
	return h, r.Err
}

// PutHeader serialises a header.
func PutHeader(version uint16, typ byte, sender, recv uint32) []byte {
	b := PutU16(nil, version)
	b = append(b, typ)
	if version == 3 {
		b = PutU32(b, sender)
		b = PutU32(b, recv)
	}
	return b
}

// Kind classifies a wire message.
type Kind int

// Wire message kinds.
const (
	KPlain Kind = iota
	KTagged
	KQuery
	KError
	KFragV2
	KFragV3
	KEncoded
	KUnknownOTR
)

// Whitespace tag pieces.
var (
	WSBase = []byte("\x20\x09\x20\x20\x09\x09\x09\x09\x20\x09\x20\x09\x20\x09\x20\x20")
	WSV1   = []byte("\x20\x09\x20\x09\x20\x20\x09\x20")
	WSV2   = []byte("\x20\x20\x09\x09\x20\x20\x09\x20")
	WSV3   = []byte("\x20\x20\x09\x09\x20\x20\x09\x09")
)

// Classify determines the kind of a wire message.
func Classify(wire []byte) Kind {
	switch {
	case bytes.HasPrefix(wire, []byte("?OTR:")):
		return KEncoded
	case bytes.HasPrefix(wire, []byte("?OTR|")):
		return KFragV3
	case bytes.HasPrefix(wire, []byte("?OTR,")):
		return KFragV2
	case bytes.HasPrefix(wire, []byte("?OTR Error:")):
		return KError
	case bytes.HasPrefix(wire, []byte("?OTR?")), bytes.HasPrefix(wire, []byte("?OTRv")):
		return KQuery
	case bytes.HasPrefix(wire, []byte("?OTR")):
		return KUnknownOTR
	case bytes.Contains(wire, WSBase):
		return KTagged
	}
	return KPlain
}

// Fragment is a parsed fragment.
type Fragment struct {
	V3           bool
	Sender, Recv uint32
	K, N         int
	Payload      []byte
}

// ParseFragment parses "?OTR|sender|recv,k,n,payload," and "?OTR,k,n,payload,".
func ParseFragment(wire []byte) (Fragment, bool) {
	var f Fragment
	var rest []byte
	switch {
	case bytes.HasPrefix(wire, []byte("?OTR|")):
		f.V3 = true
		body := wire[5:]
		c := bytes.IndexByte(body, ',')
		if c < 0 {
			return f, false
		}
		tags := bytes.Split(body[:c], []byte("|"))
		if len(tags) != 2 {
			return f, false
		}
		s, e1 := strconv.ParseUint(string(tags[0]), 16, 32)
		r, e2 := strconv.ParseUint(string(tags[1]), 16, 32)
		if e1 != nil || e2 != nil {
			return f, false
		}
		f.Sender, f.Recv = uint32(s), uint32(r)
		rest = body[c+1:]
	case bytes.HasPrefix(wire, []byte("?OTR,")):
		rest = wire[5:]
	default:
		return f, false
	}
	parts := bytes.SplitN(rest, []byte(","), 3)
	if len(parts) != 3 {
		return f, false
	}
	k, e1 := strconv.ParseUint(string(parts[0]), 10, 32)
	n, e2 := strconv.ParseUint(string(parts[1]), 10, 32)
	if e1 != nil || e2 != nil {
		return f, false
	}
	pl := parts[2]
	if len(pl) == 0 || pl[len(pl)-1] != ',' {
		return f, false
	}
	f.K, f.N, f.Payload = int(k), int(n), pl[:len(pl)-1]
	if bytes.IndexByte(f.Payload, ',') >= 0 {
		return f, false
	}
	return f, true
}

// MakeFragment renders one fragment in the format of the given version.
func MakeFragment(v3 bool, sender, recv uint32, k, n int, payload []byte) []byte {
	var s string
	if v3 {
		s = fmt.Sprintf("?OTR|%08x|%08x,%05d,%05d,", sender, recv, k, n)
	} else {
		s = fmt.Sprintf("?OTR,%05d,%05d,", k, n)
	}
	return append(append([]byte(s), payload...), ',')
}

// Split cuts an armoured message into fragments with at most maxPayload bytes each.
func Split(v3 bool, sender, recv uint32, wire []byte, maxPayload int) [][]byte {
	n := (len(wire) + maxPayload - 1) / maxPayload
	if n == 0 {
		n = 1
	}
	var out [][]byte
	for k := 1; k <= n; k++ {
		lo, hi := (k-1)*maxPayload, k*maxPayload
		if hi > len(wire) {
			hi = len(wire)
		}
		out = append(out, MakeFragment(v3, sender, recv, k, n, wire[lo:hi]))
	}
	return out
}

// Reassembler follows the receiving rules of the protocol documents.
type Reassembler struct {
	K, N int
	Buf  []byte
}

// Add feeds one fragment; it returns the complete message when the last piece arrived.
func (a *Reassembler) Add(f Fragment) ([]byte, bool) {
	if f.K == 0 || f.N == 0 || f.K > f.N {
		return nil, false
	}
	switch {
	case f.K == 1:
		a.K, a.N, a.Buf = 1, f.N, append([]byte{}, f.Payload...)
	case f.N == a.N && f.K == a.K+1:
		a.K = f.K
		a.Buf = append(a.Buf, f.Payload...)
	default:
		a.K, a.N, a.Buf = 0, 0, nil
	}
	if a.N > 0 && a.K == a.N {
		out := a.Buf
		a.K, a.N, a.Buf = 0, 0, nil
		return out, true
	}
	return nil, false
}

// ParseQuery returns the versions offered by a query message.
func ParseQuery(wire []byte) (versions []int, ok bool) {
	if !bytes.HasPrefix(wire, []byte("?OTR")) {
		return nil, false
	}
	s := wire[4:]
	if len(s) > 0 && s[0] == '?' {
		versions = append(versions, 1)
		s = s[1:]
		ok = true
	}
	if len(s) > 0 && s[0] == 'v' {
		end := bytes.IndexByte(s, '?')
		if end < 0 {
			return versions, ok
		}
		for _, c := range s[1:end] {
			if c >= '0' && c <= '9' {
				versions = append(versions, int(c-'0'))
			}
		}
		ok = true
	}
	return versions, ok
}
