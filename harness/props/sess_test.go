package props

import (
	"bytes"
	"fmt"
	"math/big"
	"os"
	"time"

	"pgregory.net/rapid"

	"verif/harness/ref"
	"verif/harness/sim"
)

// SOp is one step of a general session script. Selectors are relative
// (taken modulo what exists) so every op is applicable in every state.
type SOp struct {
	K string `json:"k"`
	W int    `json:"w,omitempty"` // acting party, or direction (sender side) for network ops
	I int    `json:"i,omitempty"` // index selector
	L int    `json:"l,omitempty"` // length / position
	F int    `json:"f,omitempty"` // filler kind / value
	X int    `json:"x,omitempty"` // variant
	S string `json:"s,omitempty"`
}

// SessScript is a general two-party history.
type SessScript struct {
	Cfg  SessCfg `json:"cfg"`
	PolA int     `json:"pa,omitempty"` // extra policy bits (beyond the version)
	PolB int     `json:"pb,omitempty"`
	Ops  []SOp   `json:"ops"`
}

// Sess is the interpreter state for a SessScript.
type Sess struct {
	Faults int // randomness faults armed so far
	Cfg    SessCfg
	W      *sim.World
	Obs    *ref.Observer
	nDraw  [2]int
	nText  int
	// texts passed to Send, per party, with the state they were sent in
	Texts [2][]*SentText
	// every observed message emitted by the parties, in order
	Seen []*ref.ObsMsg
	// SeenBy maps wire bytes (string) to its observation
	asked   [2]bool
	secrets [][]byte
	o       *sim.Outcome
	// hooks
	OnObs func(c *sim.Call, m *ref.ObsMsg)
	// Units are the logical messages emitted (one armoured message, possibly
	// spread over several fragments), in emission order.
	Units   []*Unit
	open    [2]*Unit
	byWire  map[*sim.Wire]wireRef
	nLogged int
	cur     [2]*Unit // reassembly tracking per receiver
	curPos  [2]int
	nDeliv  [2]int // completed unit deliveries per receiver
	epoch   [2]int // sessions started per party (GoneSecure/StillSecure count)
}

type wireRef struct {
	u   *Unit
	pos int
}

// Unit is one logical message with its observation.
type Unit struct {
	ID      int
	From    int
	Wires   []*sim.Wire
	Obs     *ref.ObsMsg
	Effects [2]int // deliveries to receiver r that had an observable effect
	FirstAt [2]int // nDeliv of the receiver when the first effect happened
	Epoch   int    // sender's session count when emitted
}

// IsData reports whether the unit is a verified-or-not data message.
func (u *Unit) IsData() bool { return u.Obs != nil && u.Obs.Data != nil }

// SentText records one Send call.
type SentText struct {
	Who       int
	Text      string
	Token     string
	Encrypted bool // sender was encrypted when Send was called
	Err       error
	Call      *sim.Call
	Epoch     int // number of End/finish transitions of the sender before this send
}

func newSess(sc *SessScript, o *sim.Outcome) *Sess {
	pa, pb := sc.Cfg.pol()|sc.PolA, sc.Cfg.pol()|sc.PolB
	w := sim.NewWorld(
		sim.PartyOpts{Seed: sc.Cfg.SeedA, Pol: pa, KeyI: sc.Cfg.KeyA, Frag: sc.Cfg.FragA, NoErrH: sc.Cfg.NoErrH, ShortKeys: sc.Cfg.SkA},
		sim.PartyOpts{Seed: sc.Cfg.SeedB, Pol: pb, KeyI: sc.Cfg.KeyB, Frag: sc.Cfg.FragB, NoErrH: sc.Cfg.NoErrH, ShortKeys: sc.Cfg.SkB, ShortFrom: 1})
	s := &Sess{Cfg: sc.Cfg, W: w, Obs: ref.NewObserver(3), o: o}
	s.Obs.Versions = []int{versionsOf(pa), versionsOf(pb), 3}
	s.Obs.SendsWS = []bool{pa&sim.PolSendWS != 0, pb&sim.PolSendWS != 0, false}
	for i := 0; i < 2; i++ {
		k, err := ref.ParseDSAPrivate(sim.PoolKeyBytes(w.P[i].KeyI))
		if err != nil {
			panic(err)
		}
		s.Obs.Long[i] = k.PubBytes()
	}
	s.secrets = [][]byte{[]byte("correct horse"), []byte("battery staple"), {}, []byte("x")}
	w.OnCall = s.onCall
	return s
}

func (s *Sess) syncDraws() {
	for p := 0; p < 2; p++ {
		ds := s.W.P[p].R.Draws
		for ; s.nDraw[p] < len(ds); s.nDraw[p]++ {
			d := ds[s.nDraw[p]]
			switch d.N {
			case 40:
				s.Obs.LearnExp(p, d.Data)
			case 16:
				s.Obs.LearnR(p, d.Data)
			}
		}
	}
}

func (s *Sess) onCall(c *sim.Call) {
	s.syncDraws()
	if os.Getenv("VERIF_DEBUG") != "" {
		var ts []string
		for _, m := range c.Out {
			t, v := typeOf(m)
			ts = append(ts, fmt.Sprintf("%02x/v%d/%d", t, v, len(m)))
		}
		it, iv := typeOf(c.In)
		fmt.Printf("DBG %s.%s in=%02x/v%d/%d err=%v out=%v enc %v->%v sec=%v\n", s.W.P[c.Who].Name, c.Name, it, iv, len(c.In), c.Err, ts, c.EncBef, c.EncAft, c.NewSec(s.W.P[c.Who]))
	}
	if s.byWire == nil {
		s.byWire = map[*sim.Wire]wireRef{}
	}
	for _, e := range c.NewSec(s.W.P[c.Who]) {
		if e != 0 { // GoneSecure or StillSecure
			s.epoch[c.Who]++
		}
	}
	first := len(s.W.Log) - len(c.Out)
	for i, m := range c.Out {
		om := s.Obs.Observe(c.Who, m)
		s.Seen = append(s.Seen, om)
		wr := s.W.Log[first+i]
		u := s.open[c.Who]
		if u == nil {
			u = &Unit{ID: len(s.Units), From: c.Who, Epoch: s.epoch[c.Who]}
			s.Units = append(s.Units, u)
		}
		u.Wires = append(u.Wires, wr)
		s.byWire[wr] = wireRef{u, len(u.Wires) - 1}
		if om.Partial {
			s.open[c.Who] = u
		} else {
			u.Obs = om
			s.open[c.Who] = nil
		}
		if s.OnObs != nil {
			s.OnObs(c, om)
		}
	}
}

// hasEffect reports whether a Receive call had any observable effect besides an
// OTR error reply: plaintext, SMP/security event, key callback or a data-message reply.
func (s *Sess) hasEffect(c *sim.Call) bool {
	p := s.W.P[c.Who]
	if c.HasPl || len(c.NewSMP(p)) > 0 || len(c.NewSec(p)) > 0 || len(c.NewSym(p)) > 0 {
		return true
	}
	for _, m := range c.Out {
		if !bytes.HasPrefix(m, []byte("?OTR Error")) {
			return true
		}
	}
	return false
}

// DeliverWire hands one wire to receiver r and keeps unit bookkeeping.
// It returns the call and, when the wire completed an in-order delivery of its unit, that unit.
func (s *Sess) DeliverWire(r int, wr *sim.Wire) (*sim.Call, *Unit) {
	ref, known := s.byWire[wr]
	u := ref.u
	complete := false
	if known {
		pos := ref.pos
		switch {
		case pos == 0:
			s.cur[r], s.curPos[r] = u, 0
		case s.cur[r] == u && s.curPos[r] == pos-1:
			s.curPos[r] = pos
		default:
			s.cur[r] = nil
		}
		complete = s.cur[r] == u && s.curPos[r] == len(u.Wires)-1
	} else {
		s.cur[r] = nil
	}
	c := s.W.Receive(r, wr.Data)
	s.noteAsk(c)
	if complete {
		s.cur[r] = nil
		s.nDeliv[r]++
		return c, u
	}
	return c, nil
}

// DeliverQ delivers queue entry idx of direction dir through DeliverWire.
func (s *Sess) DeliverQ(dir, idx int) (*sim.Call, *Unit) {
	wr := s.W.Drop(dir, idx)
	if wr == nil {
		return nil, nil
	}
	return s.DeliverWire(1-dir, wr)
}

// Text builds the next unique text.
func (s *Sess) Text(who, l, f int) []byte {
	s.nText++
	return append([]byte(token(who, s.nText)), filler(f, l, s.nText)...)
}

// Send performs a send op and records it.
func (s *Sess) Send(who int, text []byte) *SentText {
	st := &SentText{Who: who, Text: string(text), Encrypted: s.W.P[who].C.IsEncrypted()}
	st.Token = findToken(text)
	c := s.W.Send(who, text)
	st.Err, st.Call = c.Err, c
	s.Texts[who] = append(s.Texts[who], st)
	return st
}

// Exec runs one generic op; it returns the API call made (nil for pure network ops).
func (s *Sess) Exec(op SOp) *sim.Call {
	w := s.W
	who := op.W & 1
	switch op.K {
	case "fault":
		// the next read of this party's randomness source fails, once (error, or a short read and an error)
		p := w.P[who]
		p.R.FailAt, p.R.FailFor, p.R.FailMode = p.R.Reads()+op.X%16, 1, op.I%2
		s.Faults++
	case "garbage":
		// an encoded message nobody can read arrives: the conversation answers with an error message of its own making
		// (a well-formed data message under keys nobody has: "unreadable" while encrypted, "not in private" otherwise)
		ver, st, rt := uint16(3), uint32(0x4711), uint32(0)
		if w.P[who].Pol&sim.PolV3 == 0 {
			ver = 2
		} else if w.P[who].C.IsEncrypted() {
			st, rt = w.P[who].C.GetTheirInstanceTag(), w.P[who].C.GetOurInstanceTag()
		}
		hdr := ref.PutHeader(ver, ref.TypeData, st, rt)
		body := ref.BuildData(hdr, 0, 1, 1, big.NewInt(int64(7+op.F)), uint64(1+op.L), filler(1, 20+op.L%40, op.F), filler(1, 20, op.F+1), nil)
		return w.Receive(who, ref.Armor(append(append([]byte{}, hdr...), body...)))
	case "shortkey":
		// the next D-H key this party generates has a public value with a zero top byte (a byte shorter on the wire)
		w.P[who].R.ArmShort(who)
	case "faultsess":
		// one read of this party's source fails somewhere inside the key exchange that follows
		p := w.P[who]
		p.R.FailAt, p.R.FailFor, p.R.FailMode = p.R.Reads()+op.X%16, 1, op.I%2
		s.Faults++
		w.AgeClock(0, 3*time.Minute)
		w.AgeClock(1, 3*time.Minute)
		w.Query((op.I >> 1) & 1)
		s.Exec(SOp{K: "flush"})
	case "send":
		return s.Send(who, s.Text(who, capLen(op.L, s.Cfg.V, s.frag(who)), op.F)).Call
	case "dl":
		c, _ := s.DeliverQ(who, op.I)
		return c
	case "pp":
		for i := 0; i <= op.I%3; i++ {
			for _, d := range []int{who, 1 - who} {
				s.Send(d, s.Text(d, op.L%200, op.F))
				for len(w.Q[d]) > 0 {
					s.DeliverQ(d, 0)
				}
				for len(w.Q[1-d]) > 0 {
					s.DeliverQ(1-d, 0)
				}
			}
		}
	case "dup":
		if q := w.Q[who]; len(q) > 0 {
			i := op.I % len(q)
			cp := *q[i]
			cp.Replayed = true
			if r, ok := s.byWire[q[i]]; ok {
				s.byWire[&cp] = r
			}
			w.Q[who] = append(q[:i+1:i+1], append([]*sim.Wire{&cp}, q[i+1:]...)...)
		}
	case "drop":
		w.Drop(who, op.I)
	case "query":
		return w.Query(who)
	case "sess":
		w.AgeClock(0, 3*time.Minute)
		w.AgeClock(1, 3*time.Minute)
		w.Query(who)
		s.Exec(SOp{K: "flush"})
	case "peerend":
		w.End(1 - who)
		s.Exec(SOp{K: "flush"})
	case "end":
		return w.End(who)
	case "smp":
		q := ""
		if op.X&4 != 0 {
			q = "what is it?"
		}
		return w.SMPStart(who, q, s.secrets[op.X&3])
	case "ans":
		if s.asked[who] {
			s.asked[who] = false
			return w.SMPAnswer(who, s.secrets[op.X&3])
		}
	case "abort":
		return w.SMPAbort(who)
	case "xk":
		return w.ExtraKey(who, uint32(op.X), []byte(op.S))
	case "age":
		w.AgeClock(who, 2*time.Minute)
	case "errmsg":
		c := w.Receive(1-who, []byte("?OTR Error: something went wrong"))
		return c
	case "flush":
		for n := 0; n < 200000 && w.Pending() > 0; n++ {
			d := n % 2
			if len(w.Q[d]) == 0 {
				d = 1 - d
			}
			s.DeliverQ(d, 0)
		}
	}
	return nil
}

func (s *Sess) frag(who int) int { return s.Cfg.fragOf(who) }

func versionsOf(pol int) int { return pol & (sim.PolV2 | sim.PolV3) }

func (s *Sess) noteAsk(c *sim.Call) {
	if c == nil {
		return
	}
	for _, e := range c.NewSMP(s.W.P[c.Who]) {
		if e.Ev == 3 || e.Ev == 4 { // AskForAnswer, AskForSecret
			s.asked[c.Who] = true
		}
	}
}

// Handshake establishes a session by query from `starter`.
func (s *Sess) Handshake(starter int) bool {
	s.W.Query(starter)
	s.Exec(SOp{K: "flush"})
	return s.W.P[0].C.IsEncrypted() && s.W.P[1].C.IsEncrypted()
}

// ObsIssues collects every specification deviation the observer found.
func (s *Sess) ObsIssues() []string {
	var out []string
	for i, m := range s.Seen {
		for _, is := range m.Issues {
			out = append(out, fmt.Sprintf("msg#%d from %s: %s", i, s.W.P[m.From].Name, is))
		}
	}
	return out
}

// ---- generators shared by the session-level properties ----

var sessOpKinds = []string{"pp", "pp", "send", "send", "send", "send", "dl", "dl", "dl", "dl", "dl", "dl", "smp", "ans", "ans", "xk", "age", "abort"}

func genSOp(t *rapid.T, kinds []string, maxLen int) SOp {
	k := rapid.SampledFrom(kinds).Draw(t, "k")
	op := SOp{K: k, W: rapid.IntRange(0, 1).Draw(t, "w")}
	switch k {
	case "send":
		cls := rapid.IntRange(0, len(lenClasses)-1).Draw(t, "lc")
		op.L = lenClasses[cls]
		if op.L > maxLen {
			op.L = maxLen
		}
		op.F = rapid.IntRange(0, 4).Draw(t, "f")
		op.X = rapid.IntRange(0, 8).Draw(t, "prefix")
	case "pp":
		op.I = rapid.IntRange(0, 2).Draw(t, "rounds")
		op.L = rapid.IntRange(0, 199).Draw(t, "l")
	case "dl", "dup", "drop":
		if rapid.IntRange(0, 3).Draw(t, "fifo") == 0 {
			op.I = rapid.IntRange(0, 5).Draw(t, "i")
		}
	case "smp", "ans":
		op.X = rapid.IntRange(0, 7).Draw(t, "x")
	case "fault", "faultsess":
		op.X = rapid.IntRange(0, 15).Draw(t, "skip")
		op.I = rapid.IntRange(0, 3).Draw(t, "mode")
	case "xk":
		op.X = rapid.IntRange(0, 1<<16).Draw(t, "x")
		op.S = rapid.SampledFrom([]string{"", "file-transfer", "\x00\x01"}).Draw(t, "s")
	}
	return op
}

func genSOps(t *rapid.T, kinds []string, max, maxLen int) []SOp {
	n := rapid.IntRange(1, max).Draw(t, "nops")
	ops := make([]SOp, n)
	for i := range ops {
		ops[i] = genSOp(t, kinds, maxLen)
	}
	return ops
}

// dataWire reports whether wire is (the last fragment of, or a whole) encoded message.
func isEncoded(wire []byte) bool { return bytes.HasPrefix(wire, []byte("?OTR:")) }
