package props

import (
	"encoding/json"
	"fmt"
	"os"
	"regexp"
	"strings"
	"testing"

	"verif/harness/sim"
)

func TestMain(m *testing.M) {
	code := m.Run()
	sim.Flush()
	os.Exit(code)
}

// TestReplayFile re-runs a saved reproduction (VERIF_REPLAY_FILE) without rapid.
func TestReplayFile(t *testing.T) {
	path := os.Getenv("VERIF_REPLAY_FILE")
	if path == "" {
		t.Skip("no VERIF_REPLAY_FILE")
	}
	rf, o, err := sim.RunReplay(path)
	if err != nil {
		t.Fatalf("replay %s: %v", path, err)
	}
	if o.Violation != "" {
		fmt.Printf("REPLAY-VIOLATION test=%s sig=%s\n%s\n", rf.Test, o.Sig, o.Violation)
		t.Fatalf("violation reproduced")
	}
	fmt.Printf("REPLAY-OK test=%s nontrivial=%v classes=%v\n", rf.Test, o.NonTrivial, o.Classes)
}

// TestRegress replays every committed regression script of the property in VERIF_PROP.
func TestRegress(t *testing.T) {
	dir := os.Getenv("VERIF_REGRESS_DIR")
	if dir == "" {
		t.Skip("no VERIF_REGRESS_DIR")
	}
	ents, _ := os.ReadDir(dir)
	n := 0
	for _, e := range ents {
		if !strings.HasSuffix(e.Name(), ".json") {
			continue
		}
		p := dir + "/" + e.Name()
		rf, o, err := sim.RunReplay(p)
		if err != nil {
			t.Fatalf("regress %s: %v", p, err)
		}
		n++
		if o.Violation != "" {
			if sim.KnownOpen(o.Sig) {
				fmt.Printf("REGRESS-KNOWN file=%s sig=%s\n", p, o.Sig)
				continue
			}
			fmt.Printf("REGRESS-VIOLATION file=%s test=%s sig=%s\n%s\n", p, rf.Test, o.Sig, o.Violation)
			t.Errorf("regression %s violated", p)
		}
	}
	fmt.Printf("REGRESS-DONE n=%d\n", n)
}

// reg registers a typed runner.
func reg[S any](test string, run func(*S) *sim.Outcome) {
	sim.Register(test, func(raw json.RawMessage) (*sim.Outcome, error) {
		var s S
		if err := json.Unmarshal(raw, &s); err != nil {
			return nil, err
		}
		return run(&s), nil
	})
}

// token builds a unique 12-byte marker.
func token(who, n int) string { return fmt.Sprintf("<%c%05d:tk>", 'a'+who, n%100000) }

// filler builds deterministic NUL-free content of the given class and length.
func filler(kind, n, salt int) []byte {
	if n <= 0 {
		return nil
	}
	out := make([]byte, n)
	x := uint32(salt*2654435761 + 12345)
	for i := range out {
		x = x*1664525 + 1013904223
		var b byte
		switch kind % 5 {
		case 0: // printable ascii
			b = byte(32 + (x>>16)%95)
		case 1: // any non-NUL byte
			b = byte(1 + (x>>16)%255)
		case 2: // utf-8 two-byte sequences
			if i%2 == 0 {
				b = 0xc3
			} else {
				b = byte(0x80 + (x>>16)%0x40)
			}
		case 3: // OTR-looking content
			s := "?OTR:AAMD?OTRv23? \t  \t\t\t\t \t \t \t  ?OTR Error:?OTR|,"
			b = s[i%len(s)]
		default: // whitespace heavy
			if (x>>16)%2 == 0 {
				b = ' '
			} else {
				b = '\t'
			}
		}
		out[i] = b
	}
	if kind%5 == 2 && n%2 == 1 {
		out[n-1] = 'x'
	}
	return out
}

var tokenRe = regexp.MustCompile(`<[a-z][0-9]{5}:tk>`)

// findToken returns the first text token in b ("" if none).
func findToken(b []byte) string { return string(tokenRe.Find(b)) }

var lenClasses = []int{0, 1, 7, 60, 250, 700, 1500, 5000}

func shardSeedNote() string {
	i, n := sim.Shard()
	return fmt.Sprintf("shard %d/%d", i, n)
}
