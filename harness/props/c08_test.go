package props

import (
	"fmt"
	"os"
	"strings"
	"testing"
	"unsafe"

	"github.com/coyim/otr3"
	"pgregory.net/rapid"

	"verif/harness/ref"
	"verif/harness/sim"
)

// ---- C08: retired secrets and old plaintext are not retained (forward secrecy) ----

type secretRec struct {
	d      *sim.Draw
	class  string // "dh" (40 bytes), "r" (16 bytes), "smp" (192 bytes)
	copies [][]byte
	seen   map[uintptr]bool
	role   string // for dh: "ake" or "session"
}

type fsParty struct {
	secrets   []*secretRec
	nDraw     int
	akeExp    *secretRec   // exponent of the key exchange in progress
	akeRs     []*secretRec // r values of the key exchange in progress
	chain     []*secretRec // session DH keys, oldest first
	inAKE     bool
	ended     bool // after End()/disconnect and before the next session
	texts     []string
	queued    map[string]bool
	lastText  string
	rotations int
}

type c08run struct {
	finalFailed *finalFail
	s           *Sess
	o           *sim.Outcome
	p           [2]*fsParty
	v3          bool
	events      map[string]bool
}

func akeTypesIn(out [][]byte) (commit, dhkey bool) {
	for _, m := range out {
		switch t, _ := typeOf(m); t {
		case ref.TypeDHCommit:
			commit = true
		case ref.TypeDHKey:
			dhkey = true
		}
	}
	return
}

func (r *c08run) onCall(c *sim.Call) {
	if r.o.Violation != "" {
		return
	}
	who := c.Who
	fp := r.p[who]
	party := r.s.W.P[who]
	// classify the draws made during this call
	var newDH, newR []*secretRec
	for ; fp.nDraw < len(party.R.Draws); fp.nDraw++ {
		d := party.R.Draws[fp.nDraw]
		rec := &secretRec{d: d, seen: map[uintptr]bool{}}
		switch {
		case d.N == 40:
			rec.class = "dh"
			newDH = append(newDH, rec)
		case d.N == 16 && r.v3:
			rec.class = "r"
			newR = append(newR, rec)
		case d.N == 192:
			rec.class = "smp"
		default:
			continue
		}
		if len(d.Alias) > 0 {
			rec.copies = append(rec.copies, d.Alias)
			rec.seen[uintptr(unsafe.Pointer(&d.Alias[0]))] = true
		}
		fp.secrets = append(fp.secrets, rec)
	}
	commit, dhkey := akeTypesIn(c.Out)
	if os.Getenv("VERIF_DEBUG") != "" {
		fmt.Printf("DBG %s.%s in=%d err=%v out=%d enc %v->%v draws=%d sec=%v\n", party.Name, c.Name, len(c.In), c.Err, len(c.Out), c.EncBef, c.EncAft, len(party.R.Draws), c.NewSec(party))
	}
	completed := false
	for _, e := range c.NewSec(party) {
		if e == otr3.GoneSecure || e == otr3.StillSecure {
			completed = true
		}
		if e == otr3.GoneInsecure {
			fp.ended = true
			fp.chain = nil
			r.events["end-or-disconnect"] = true
			if c.Name == "Receive" && !(commit || dhkey) {
				// the peer's disconnect also abandons a key exchange we had in flight (the library drops it:
				// the peer's later handshake messages are ignored), so its secrets have to go as well
				if fp.inAKE {
					r.events["disconnect-during-ake"] = true
				}
				fp.inAKE, fp.akeExp, fp.akeRs = false, nil, nil
			}
		}
	}
	if c.Name == "Receive" && !completed && fp.inAKE {
		// the peer's final key-exchange message (observer-validated) was processed: whatever the outcome, this
		// exchange is over (the state machine is back to "none"), so its ephemeral secrets have to go
		for i := len(r.s.Units) - 1; i >= 0 && i > len(r.s.Units)-12; i-- {
			u := r.s.Units[i]
			if u.From != who && u.Obs != nil && u.Obs.Verified && (u.Obs.Reveal != nil || u.Obs.Sig != nil) && len(u.Wires) > 0 && string(u.Wires[len(u.Wires)-1].Data) == string(c.In) {
				if c.Err != nil {
					// the exchange may or may not be over (the library keeps waiting when it could not build its
					// reply); the fault runner settles the question by presenting the message once more
					r.events["final-ake-message-failed"] = true
					r.finalFailed = &finalFail{who: who, unit: u}
				}
				break
			}
		}
	}
	if c.Name == "End" {
		fp.ended, fp.chain = true, nil
		fp.inAKE, fp.akeExp, fp.akeRs = false, nil, nil
		r.events["end-or-disconnect"] = true
	}
	if c.Err != nil && len(c.Out) == 0 && !completed && !c.EncBef && !c.EncAft && (len(newDH) > 0 || len(newR) > 0) {
		// the call failed before anything derived from these draws left the conversation (a handshake message that
		// could not be built, a malformed D-H Commit answered too eagerly): they never protected anything, so they are
		// not "retired" secrets in the sense of the property; the library keeps them in its idle handshake context
		// until the next exchange starts (pinned by Test_receiveDHCommit_AtAuthStateNoneStoresGyAndY)
		r.events["unused-draws-after-error"] = true
		for _, rec := range append(newDH, newR...) {
			rec.class = "unused"
		}
		newDH, newR = nil, nil
	}
	if (commit || dhkey) && len(newDH) > 0 && !completed {
		// a new exchange starts: whatever was in progress is abandoned
		if fp.inAKE {
			r.events["abandoned-ake"] = true
		}
		fp.inAKE, fp.akeExp, fp.akeRs = true, newDH[0], newR
		newDH[0].role = "ake"
		newDH = newDH[1:]
	} else if len(newR) > 0 && fp.inAKE {
		fp.akeRs = append(fp.akeRs, newR...)
	}
	if completed {
		// the exchange's exponent becomes the previous key, a fresh one the current key
		fp.chain = nil
		if fp.akeExp != nil {
			fp.chain = append(fp.chain, fp.akeExp)
		}
		fp.inAKE, fp.akeExp, fp.akeRs, fp.ended = false, nil, nil, false
	}
	for _, rec := range newDH {
		rec.role = "session"
		fp.chain = append(fp.chain, rec)
		if !completed {
			fp.rotations++
		}
	}
	if c.Name == "Send" && c.Err == nil {
		if tok := findToken(c.In); tok != "" {
			fp.texts = append(fp.texts, tok)
			fp.lastText = tok
			if !c.EncBef && len(c.Out) == 1 && ref.Classify(c.Out[0]) == ref.KQuery {
				fp.queued[tok] = true
			}
		}
	}
	if completed {
		fp.queued = map[string]bool{} // queued texts are transmitted when the session starts
	}
	r.check(who, fmt.Sprintf("%s.%s", party.Name, c.Name))
}

func (r *c08run) check(who int, after string) {
	fp := r.p[who]
	party := r.s.W.P[who]
	g := sim.Walk(party.C)
	allowed := map[*secretRec]bool{}
	if n := len(fp.chain); n > 0 {
		allowed[fp.chain[n-1]] = true
		if n > 1 {
			allowed[fp.chain[n-2]] = true
		}
	}
	if fp.inAKE && fp.akeExp != nil {
		allowed[fp.akeExp] = true
		for _, x := range fp.akeRs {
			allowed[x] = true
		}
	}
	reachableDH := 0
	for _, rec := range fp.secrets {
		if rec.class == "unused" {
			continue
		}
		if rec.class == "r" {
			// r is disclosed in the Reveal Signature message, so copies inside message buffers are not secrets;
			// what is judged is the place it was drawn into: once the exchange is over it must have been zeroed
			if !allowed[rec] && len(rec.d.Alias) > 0 && sim.StillHolds(rec.d.Alias, rec.d.Data) {
				r.o.Fail("C08/r-not-erased", "after %s: the r value (draw #%d of %s) of a completed or abandoned key exchange has not been erased", after, rec.d.Idx, party.Name)
				return
			}
			continue
		}
		regs := g.FindRegions(rec.d.Data)
		if len(regs) > 0 {
			for _, rg := range regs {
				k := uintptr(unsafe.Pointer(&rg.Mem[0]))
				if !rec.seen[k] && len(rec.copies) < 8 {
					rec.seen[k] = true
					rec.copies = append(rec.copies, rg.Mem)
				}
			}
			if rec.class == "dh" {
				reachableDH++
			}
			paths := make([]string, len(regs))
			for i, rg := range regs {
				paths[i] = rg.Path
			}
			where := strings.Join(paths, ", ")
			switch {
			case rec.class == "smp":
				if fp.ended && !fp.inAKE {
					r.o.Fail("C08/smp-secret-after-end", "after %s: an SMP exponent drawn earlier is still reachable (%s) although the session has ended", after, where)
					return
				}
			case fp.ended && !fp.inAKE:
				r.o.Fail("C08/secret-after-end", "after %s: a %s secret (draw #%d) is still reachable at %s although the session ended and no key exchange is in progress", after, rec.class, rec.d.Idx, where)
				return
			case !allowed[rec]:
				what := "an exponent older than the current and previous DH keys"
				if rec.class == "r" {
					what = "the r value of a completed or abandoned key exchange"
				} else if rec.role == "ake" {
					what = "the exponent of a completed-and-rotated-out or abandoned key exchange"
				}
				r.o.Fail("C08/retired-secret-reachable", "after %s: %s (draw #%d of %s) is still reachable at %s", after, what, rec.d.Idx, party.Name, where)
				return
			}
			continue
		}
		// not reachable any more: every copy we ever saw must have been zeroed
		if rec.class == "smp" {
			continue
		}
		for _, cp := range rec.copies {
			if sim.StillHolds(cp, rec.d.Data) {
				r.o.Fail("C08/not-erased", "after %s: a %s secret (draw #%d of %s, %s) is no longer reachable from the conversation but a buffer that held it was dropped without being zeroed", after, rec.class, rec.d.Idx, party.Name, rec.role)
				return
			}
		}
	}
	limit := 2
	if fp.inAKE {
		limit = 3
	}
	if reachableDH > limit {
		r.o.Fail("C08/too-many-keys", "after %s: %d DH exponents are reachable (limit %d)", after, reachableDH, limit)
		return
	}
	for _, tok := range fp.texts {
		if tok == fp.lastText || fp.queued[tok] {
			continue
		}
		if paths := g.FindText([]byte(tok)); len(paths) > 0 {
			r.o.Fail("C08/old-text-retained", "after %s: text %s, which is neither queued nor the most recent message, is still held at %s", after, tok, strings.Join(paths, ", "))
			return
		}
	}
}

func runC08(sc *LifeScript) *sim.Outcome {
	o := &sim.Outcome{}
	s := newSess(&SessScript{Cfg: sc.Cfg, PolA: sc.PolA, PolB: sc.PolB}, o)
	r := &c08run{s: s, o: o, v3: sc.Cfg.V == 3, events: map[string]bool{}}
	for i := range r.p {
		r.p[i] = &fsParty{queued: map[string]bool{}}
	}
	prev := s.W.OnCall
	s.W.OnCall = func(c *sim.Call) { prev(c); r.onCall(c) }
	for _, op := range sc.Ops {
		if o.Violation != "" {
			return o
		}
		if !r.v3 && (op.K == "smp" || op.K == "ans" || op.K == "abort") {
			continue // under version 2 SMP exponents are 16 bytes long like the key exchange's r: keep the classes apart
		}
		s.Exec(op)
	}
	for k := range r.events {
		o.Class(k)
	}
	if r.p[0].rotations >= 2 || r.p[1].rotations >= 2 {
		o.Class("rotations>=2")
	}
	o.NonTrivial = (r.p[0].rotations >= 2 || r.p[1].rotations >= 2) && (r.events["abandoned-ake"] || r.events["end-or-disconnect"])
	return o
}

func init() { reg("C08secrets", runC08); reg("C08faults", runC08Fault) }

func TestProp_C08_Secrets(t *testing.T) {
	defer sim.MarkCompleted("C08secrets", false)
	kinds := []string{"pp", "pp", "pp", "pp", "send", "send", "dl", "dl", "dl", "dl", "flush", "query", "query", "sess", "sess", "end", "peerend", "smp", "ans", "abort", "age", "xk", "drop"}
	rapid.Check(t, func(rt *rapid.T) {
		sc := &LifeScript{Cfg: genSessCfg(rt)}
		sc.Cfg.FragA, sc.Cfg.FragB = 0, 0
		if rapid.IntRange(0, 3).Draw(rt, "req") == 0 {
			sc.PolA = sim.PolRequire
		}
		sc.Ops = append(sc.Ops, SOp{K: "sess", W: sc.Cfg.Starter})
		n := rapid.IntRange(2, 35).Draw(rt, "nops")
		for i := 0; i < n; i++ {
			sc.Ops = append(sc.Ops, genSOp(rt, kinds, 200))
		}
		sim.Judge(rt, "C08secrets", sc)
	})
}

// FSFaultCase: a handshake and some traffic with the randomness source of one party failing from read K on
// (healed again after the handshake), judged by the same forward-secrecy invariants.
type finalFail struct {
	who  int
	unit *Unit
}

type FSFaultCase struct {
	V    int `json:"v"`
	Who  int `json:"who"`
	K    int `json:"k"`
	Mode int `json:"mode"`
}

func runC08Fault(c *FSFaultCase) *sim.Outcome {
	o := &sim.Outcome{}
	s := newSess(&SessScript{Cfg: SessCfg{V: c.V, SeedA: 2500, SeedB: 2601, KeyA: 0, KeyB: 3}}, o)
	r := &c08run{s: s, o: o, v3: c.V == 3, events: map[string]bool{}}
	for i := range r.p {
		r.p[i] = &fsParty{queued: map[string]bool{}}
	}
	prev := s.W.OnCall
	s.W.OnCall = func(cc *sim.Call) { prev(cc); r.onCall(cc) }
	w := s.W
	w.P[c.Who].R.FailAt, w.P[c.Who].R.FailMode = c.K, c.Mode%2
	if c.Mode >= 2 {
		w.P[c.Who].R.FailFor = 1
	}
	w.Query(0)
	for n := 0; n < 2000 && w.Pending() > 0 && o.Violation == ""; n++ {
		d := n % 2
		if len(w.Q[d]) == 0 {
			d = 1 - d
		}
		s.DeliverQ(d, 0)
		if ff := r.finalFailed; ff != nil {
			// the peer's validated last handshake message was refused with an error. Present it once more with a
			// working randomness source: a conversation still in that exchange completes it now; one that ignores
			// it has left the exchange, and then nothing of the exchange may remain
			r.finalFailed = nil
			p := w.P[ff.who]
			p.R.Heal()
			nSec := len(p.Sec)
			var last *sim.Call
			for _, wr := range ff.unit.Wires {
				cp := *wr
				cp.Replayed = true
				last, _ = s.DeliverWire(ff.who, &cp)
			}
			if last != nil && last.Err == nil && len(last.Out) == 0 && len(p.Sec) == nSec && !last.EncAft {
				o.Class("exchange-left-after-fault")
				fp := r.p[ff.who]
				fp.inAKE, fp.akeExp, fp.akeRs = false, nil, nil
				r.check(ff.who, p.Name+".Receive (key exchange left after a randomness failure)")
			} else {
				o.Class("exchange-resumed-after-fault")
			}
		}
	}
	failed := w.P[c.Who].R.Failed > 0
	w.P[c.Who].R.Heal()
	if o.Violation != "" {
		return o
	}
	if c.K%2 == 1 {
		// the user whose source failed gives up at once
		w.End(c.Who)
		s.Exec(SOp{K: "flush"})
		if o.Violation != "" {
			return o
		}
	}
	// the parties go on: either in the session they have or with a new attempt
	s.Exec(SOp{K: "pp", W: 0, I: 1, L: 4})
	w.AgeClock(0, 3*60e9)
	w.AgeClock(1, 3*60e9)
	w.Query(1)
	s.Exec(SOp{K: "flush"})
	s.Exec(SOp{K: "pp", W: 1, I: 0, L: 4})
	// and whatever state the fault left behind, the users can close their conversations for good
	for p := 0; p < 2 && o.Violation == ""; p++ {
		w.End((c.Who + p) & 1)
		s.Exec(SOp{K: "flush"})
	}
	for k := range r.events {
		o.Class(k)
	}
	if failed {
		o.Class("fault-reached")
	}
	o.NonTrivial = failed
	return o
}

func TestProp_C08_Faults(t *testing.T) {
	si, sn := sim.Shard()
	idx := 0
	for _, v := range []int{3, 2} {
		for who := 0; who < 2; who++ {
			for k := 0; k <= 14; k++ {
				for mode := 0; mode < 4; mode++ {
					idx++
					if idx%sn != si {
						continue
					}
					sim.Judge(t, "C08faults", &FSFaultCase{V: v, Who: who, K: k, Mode: mode})
				}
			}
		}
	}
	sim.MarkCompleted("C08faults", true)
}
