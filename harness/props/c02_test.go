package props

import (
	"bytes"
	"math/big"
	"testing"

	"pgregory.net/rapid"

	"verif/harness/ref"
	"verif/harness/sim"
)

// ---- C02: only authentic, unmodified data messages of this session are delivered ----

type c02run struct {
	resent  int // texts that came back marked as resent and were checked against what the sender passed to Send
	s       *Sess
	o       *sim.Outcome
	hits    int // non-trivial attacks performed
	sentSet [2]map[string]bool
	allSent [2]map[string]bool
}

// genuine checks the global clause on every Receive.
func (r *c02run) genuine(c *sim.Call) {
	if c == nil || !c.HasPl || !c.EncBef || r.o.Violation != "" {
		return
	}
	p := r.s.W.P[c.Who]
	if c.HasMsgEv(p, 13) { // ReceivedMessageUnencrypted
		return
	}
	txt := string(c.Plain)
	if r.sentSet[1-c.Who][txt] {
		return
	}
	if bytes.HasPrefix(c.Plain, []byte("[resent] ")) && r.allSent[1-c.Who][txt[9:]] {
		// the library's resend feature; what may be resent is judged under C18
		r.o.Class("resent-seen")
		r.resent++
		return
	}
	r.o.Fail("C02/foreign-plaintext", "%s returned plaintext %.60q while encrypted, which the peer never sent in this session", p.Name, txt)
}

// attack takes the unit at the head of direction dir, applies mutation op to it,
// delivers the result, judges, and puts the genuine unit back.
func (r *c02run) attack(dir int, op SOp) {
	s, w := r.s, r.s.W
	if len(w.Q[dir]) == 0 && w.P[dir].C.IsEncrypted() {
		// nothing in flight: make the sender produce a target
		s.Send(dir, s.Text(dir, op.F%90, op.L))
	}
	if len(w.Q[dir]) == 0 {
		return
	}
	ref0, ok := s.byWire[w.Q[dir][0]]
	if !ok || ref0.pos != 0 || !ref0.u.IsData() || !ref0.u.Obs.Verified {
		return
	}
	u := ref0.u
	if len(w.Q[dir]) < len(u.Wires) {
		return
	}
	rcv := 1 - dir
	raw := append([]byte{}, u.Obs.Raw...)
	hl := u.Obs.Hdr.Len
	d := u.Obs.Data
	authEnd := hl + d.AuthLen + 20
	forged := append([]byte{}, raw...)
	class := ""
	inAuth := false
	put := func(field string, val []byte) {
		f := d.Fields[field]
		forged = append(append(append([]byte{}, raw[:hl+f[0]]...), val...), raw[hl+f[1]:]...)
		inAuth = true
	}
	rebuild := func(flags byte, sk, rk uint32, next *big.Int, ctr uint64, enc, mackey []byte) {
		forged = append(append([]byte{}, raw[:hl]...), ref.BuildData(raw[:hl], flags, sk, rk, next, ctr, enc, mackey, nil)...)
		inAuth = true
	}
	switch op.X % 19 {
	case 16:
		// the next-DH MPI re-encoded with leading zero bytes (same number, different authenticated bytes)
		z := 1 + op.F%3
		mpi := append(ref.PutU32(nil, uint32(len(d.NextDH.Bytes())+z)), append(make([]byte, z), d.NextDH.Bytes()...)...)
		put("nextdh", mpi)
		class = "nextdh-leading-zeros"
	case 17:
		// version 3: receiver (or sender) instance tag overwritten in transit
		if hl != 11 {
			return
		}
		off := 7
		vals := []uint32{0, 0, 0x100, 0xffffffff}
		if op.F%4 == 3 {
			off = 3
		}
		copy(forged[off:], ref.PutU32(nil, vals[op.L%len(vals)]))
		inAuth, class = true, "header-tag-overwritten"
	case 18:
		// the ciphertext DATA field re-encoded with a trailing byte moved across the boundary: length +1, stealing the first MAC byte
		f := d.Fields["enc"]
		forged = append([]byte{}, raw...)
		copy(forged[hl+f[0]:], ref.PutU32(nil, uint32(len(d.Enc)+1)))
		inAuth, class = true, "enc-length+1"
	case 0:
		pos := op.L % authEnd
		forged[pos] ^= 1 << uint(op.F%8)
		inAuth, class = true, "bitflip-auth"
	case 1:
		pos := op.L % authEnd
		if forged[pos] == byte(op.F) {
			forged[pos] ^= 0x80
		} else {
			forged[pos] = byte(op.F)
		}
		inAuth, class = true, "byteset-auth"
	case 2:
		pos := op.L % authEnd
		forged, inAuth, class = forged[:pos], true, "truncate-auth"
	case 3:
		// insert bytes inside the authenticated part
		pos := op.L % authEnd
		forged = append(append(append([]byte{}, raw[:pos]...), byte(op.F), 0), raw[pos:]...)
		inAuth, class = true, "extend-auth"
	case 4:
		put("flags", []byte{d.Flags ^ byte(1+op.F%255)})
		class = "flags"
	case 5:
		put("senderkeyid", ref.PutU32(nil, d.SenderKeyID+uint32(1+op.F%3)-2*uint32(op.F%2)))
		class = "senderkeyid"
	case 6:
		put("recipkeyid", ref.PutU32(nil, d.RecipKeyID+uint32(1+op.F%3)-2*uint32(op.F%2)))
		class = "recipkeyid"
	case 7:
		vals := []*big.Int{big.NewInt(0), big.NewInt(1), ref.PM2, new(big.Int).Add(ref.P, big.NewInt(int64(op.F%3)-1)), new(big.Int).Add(d.NextDH, big.NewInt(1))}
		put("nextdh", ref.PutMPI(nil, vals[op.F%len(vals)]))
		class = "nextdh"
	case 8:
		deltas := []uint64{1, ^uint64(0), 1 << 60, 1000}
		put("ctr", ref.PutU64(nil, d.Ctr+deltas[op.F%len(deltas)]))
		class = "ctr"
	case 9:
		// CTR malleability: flip ciphertext bits, keep the old MAC
		if len(d.Enc) == 0 {
			return
		}
		enc := append([]byte{}, d.Enc...)
		enc[op.L%len(enc)] ^= 1 << uint(op.F%8)
		put("enc", ref.PutData(nil, enc))
		class = "ciphertext"
	case 10:
		mac := append([]byte{}, d.MAC...)
		mac[op.L%20] ^= 1 << uint(op.F%8)
		put("mac", mac)
		class = "mac"
	case 11:
		// forgery under a MAC key disclosed on the wire so far
		var keys [][]byte
		for k := range s.Obs.Disclosed {
			keys = append(keys, []byte(k))
		}
		if len(keys) == 0 {
			return
		}
		sortBytes(keys)
		// every key disclosed so far is tried (the last one through the common path below)
		rcv0 := 1 - dir
		for i, k := range keys {
			if i == op.L%len(keys) || i >= 60 {
				continue
			}
			fb := append(append([]byte{}, raw[:hl]...), ref.BuildData(raw[:hl], d.Flags, d.SenderKeyID, d.RecipKeyID, d.NextDH, d.Ctr+uint64(op.F%2), d.Enc, k, nil)...)
			before := len(w.Q[rcv0])
			c0 := w.Receive(rcv0, ref.Armor(fb))
			w.Q[rcv0] = w.Q[rcv0][:before]
			if s.hasEffect(c0) {
				r.o.Fail("C02/accepted-forge-disclosed-key", "%s acted on a data message authenticated with a MAC key that had been disclosed on the wire (key pair sender %d / recipient %d): plaintext=%v", w.P[rcv0].Name, d.SenderKeyID, d.RecipKeyID, c0.HasPl)
				return
			}
		}
		k := keys[op.L%len(keys)]
		rebuild(d.Flags, d.SenderKeyID, d.RecipKeyID, d.NextDH, d.Ctr+uint64(op.F%2), d.Enc, k)
		class = "forge-disclosed-key"
	case 12:
		// forgery for a retired pair with its correct (recomputed) MAC key and a fresh counter
		pks := s.Obs.PairKeys(u.From, u.Obs.Sess)
		var old []ref.PairKey
		for _, pk := range pks {
			if pk.Own+1 < d.SenderKeyID || pk.Their+1 < d.RecipKeyID {
				old = append(old, pk)
			}
		}
		if len(old) == 0 {
			return
		}
		sortPairs(old)
		pk := old[op.L%len(old)]
		rebuild(d.Flags, pk.Own, pk.Their, d.NextDH, d.Ctr+1000, d.Enc, pk.SendMAC)
		class = "forge-retired-pair"
	case 13:
		// forgery with the keys of an earlier session between the same parties
		var other *ref.Session
		for _, ss := range s.Obs.Sessions {
			if ss != u.Obs.Sess {
				other = ss
			}
		}
		if other == nil {
			return
		}
		pks := s.Obs.PairKeys(u.From, other)
		if len(pks) == 0 {
			return
		}
		sortPairs(pks)
		pk := pks[op.L%len(pks)]
		rebuild(d.Flags, d.SenderKeyID, d.RecipKeyID, d.NextDH, d.Ctr+1, d.Enc, pk.SendMAC)
		class = "forge-other-session-key"
	case 14:
		rebuild(d.Flags, d.SenderKeyID, d.RecipKeyID, d.NextDH, d.Ctr+1, d.Enc, filler(1, 20, op.L))
		class = "forge-random-key"
	case 15:
		// change only what lies outside the authenticated part
		if op.F%2 == 0 {
			forged = append(forged, byte(op.L), 1, 2)
		} else {
			f := d.Fields["oldmackeys"]
			forged = append(append([]byte{}, raw[:hl+f[0]]...), ref.PutData(nil, filler(1, 20*(op.L%3), op.L))...)
		}
		class = "outside-auth"
	}
	if bytes.Equal(forged, raw) {
		return
	}
	// take the genuine wires off the queue, deliver the forgery as one armoured message
	genuine := append([]*sim.Wire{}, w.Q[dir][:len(u.Wires)]...)
	w.Q[dir] = w.Q[dir][len(u.Wires):]
	enc := s.W.P[rcv].C.IsEncrypted()
	fw := &sim.Wire{Data: ref.Armor(forged), From: 2, Tampered: true}
	c, _ := s.DeliverWire(rcv, fw)
	r.o.Class(class)
	if inAuth {
		if s.hasEffect(c) {
			r.o.Fail("C02/accepted-"+class, "%s acted on a data message altered in its authenticated part (%s): plaintext=%v %.40q smp=%v sec=%v replies=%d", s.W.P[rcv].Name, class, c.HasPl, c.Plain, c.NewSMP(s.W.P[rcv]), c.NewSec(s.W.P[rcv]), len(c.Out))
			return
		}
		if enc {
			r.hits++
		}
	} else if c.HasPl {
		if u.Obs.Plain == nil || !bytes.Equal(c.Plain, u.Obs.Plain.Text) {
			r.o.Fail("C02/outside-auth-changed-text", "a change outside the authenticated part made %s return %.40q instead of the genuine text", s.W.P[rcv].Name, c.Plain)
			return
		}
		// it was accepted as the genuine message: the genuine copy is now a replay; drop it
		genuine = nil
	} else if s.hasEffect(c) && u.Obs.Plain != nil {
		genuine = nil
	}
	// error replies provoked by the forgery are removed so they do not disturb the session further
	w.Q[rcv] = filterOut(w.Q[rcv], c)
	w.Q[dir] = append(genuine, w.Q[dir]...)
}

// forgeMatched: a MAC key can only pass for the one key pair it belongs to, so for every key disclosed on the
// wire that authenticates messages towards rcv (whoever disclosed it), a message is forged for exactly that pair
// with a fresh counter. The receiver must refuse: either the pair has left its window, or the key was never
// disclosed. This covers every window position at once, including messages still held back by the network.
func (r *c02run) forgeMatched(rcv int, last *ref.ObsMsg) bool {
	s := r.s
	hdr := last.Raw[:last.Hdr.Len]
	n := 0
	for _, ss := range s.Obs.Sessions {
		if ss != last.Sess {
			continue
		}
		pks := s.Obs.PairKeys(1-rcv, ss)
		sortPairs(pks)
		for _, pk := range pks {
			if _, disclosed := s.Obs.Disclosed[string(pk.SendMAC)]; !disclosed || n >= 12 {
				continue
			}
			n++
			fb := append(append([]byte{}, hdr...), ref.BuildData(hdr, 0, pk.Own, pk.Their, last.Data.NextDH, last.Data.Ctr+7000, last.Data.Enc, pk.SendMAC, nil)...)
			before := len(s.W.Q[rcv])
			c0 := s.W.Receive(rcv, ref.Armor(fb))
			s.W.Q[rcv] = s.W.Q[rcv][:before]
			r.o.Class("forge-for-the-pair-of-a-disclosed-key")
			if s.hasEffect(c0) {
				r.o.Fail("C02/accepted-forge-disclosed-key", "%s acted on a data message authenticated with a MAC key that had been disclosed on the wire while it still accepts that key pair (sender key %d, recipient key %d)", s.W.P[rcv].Name, pk.Own, pk.Their)
				return true
			}
		}
	}
	return false
}

func filterOut(q []*sim.Wire, c *sim.Call) []*sim.Wire {
	if c == nil || len(c.Out) == 0 {
		return q
	}
	return q[:len(q)-len(c.Out)]
}

func sortBytes(b [][]byte) {
	for i := 1; i < len(b); i++ {
		for j := i; j > 0 && bytes.Compare(b[j], b[j-1]) < 0; j-- {
			b[j], b[j-1] = b[j-1], b[j]
		}
	}
}

func sortPairs(p []ref.PairKey) {
	less := func(a, b ref.PairKey) bool {
		if a.Own != b.Own {
			return a.Own < b.Own
		}
		return a.Their < b.Their
	}
	for i := 1; i < len(p); i++ {
		for j := i; j > 0 && less(p[j], p[j-1]); j-- {
			p[j], p[j-1] = p[j-1], p[j]
		}
	}
}

func runC02(sc *SessScript) *sim.Outcome {
	o := &sim.Outcome{}
	s := newSess(sc, o)
	r := &c02run{s: s, o: o}
	r.sentSet[0], r.sentSet[1] = map[string]bool{}, map[string]bool{}
	r.allSent[0], r.allSent[1] = map[string]bool{}, map[string]bool{}
	prev := s.W.OnCall
	s.W.OnCall = func(c *sim.Call) {
		prev(c)
		if c.Name == "Send" {
			r.sentSet[c.Who][string(c.In)] = true
			r.allSent[c.Who][string(c.In)] = true
		}
		if c.Name == "Receive" {
			r.genuine(c)
		}
	}
	if sc.PolA&sim.PolSendWS != 0 && sc.PolB&sim.PolWSStart != 0 {
		// the session is started by a whitespace-tagged plaintext instead of a query
		s.W.Send(0, []byte("good morning"))
		s.Exec(SOp{K: "flush"})
		o.Class("whitespace-started")
		if !s.W.P[0].C.IsEncrypted() || !s.W.P[1].C.IsEncrypted() {
			o.Discard = true
			return o
		}
	} else if !s.Handshake(sc.Cfg.Starter) {
		o.Discard = true
		return o
	}
	for _, op := range sc.Ops {
		if o.Violation != "" {
			return o
		}
		switch op.K {
		case "injplain":
			// an unencrypted line injected by the network: must not pass as the peer's text
			rcv := op.W & 1
			inj := append([]byte("please send the password "), filler(0, op.L%30, op.F)...)
			switch op.X % 7 {
			case 4, 5, 6: // a line that starts like protocol traffic and is none
				inj = append([]byte([]string{"?OTR ", "?OTRx", "?OTR;"}[op.X%7-4]), inj...)
				o.Class("plaintext-injected-otr-lookalike")
			case 1: // with a whitespace tag behind it, as a peer that offers OTR would write it
				inj = append(append(inj, ref.WSBase...), ref.WSV3...)
				o.Class("plaintext-injected-with-tag")
			case 2:
				inj = append(append(append(inj, ref.WSBase...), ref.WSV2...), ref.WSV3...)
				o.Class("plaintext-injected-with-tag")
			case 3:
				inj = append(append(append([]byte{}, ref.WSBase...), ref.WSV2...), inj...)
				o.Class("plaintext-injected-with-tag")
			}
			c := s.W.Receive(rcv, inj)
			s.W.Q[rcv] = filterOut(s.W.Q[rcv], c)
			if c.EncBef {
				o.Class("plaintext-injected-while-encrypted")
				r.hits++
			}
		case "holdback":
			// the network holds one side's message back while the conversation goes on around it; whatever is
			// disclosed meanwhile must not help to forge towards the receiver that has not caught up
			a := op.W & 1
			if !s.W.P[0].C.IsEncrypted() || !s.W.P[1].C.IsEncrypted() {
				break
			}
			s.Exec(SOp{K: "flush"})
			s.Send(a, s.Text(a, 8, 0))
			s.Exec(SOp{K: "flush"})
			for i := 0; i <= op.I%2; i++ {
				s.Send(a, s.Text(a, 8, 0)) // held back
			}
			s.Send(1-a, s.Text(1-a, 8, 0))
			for len(s.W.Q[1-a]) > 0 {
				s.DeliverQ(1-a, 0)
			}
			s.Send(a, s.Text(a, 8, 0))
			var last *ref.ObsMsg
			for i := len(s.Seen) - 1; i >= 0; i-- {
				if m := s.Seen[i]; m.From == a && m.Data != nil && m.Verified {
					last = m
					break
				}
			}
			if last != nil {
				o.Class("held-back")
				r.hits++
				if r.forgeMatched(1-a, last) {
					return o
				}
			}
			if op.F%2 == 0 {
				s.Exec(SOp{K: "flush"})
			}
		case "complain":
			// the peer's client (or anybody) reports a message unreadable; the parties re-key without ending the
			// session, which is when the library sends its last message once more, marked "[resent]"
			rcv := op.W & 1
			c := s.W.Receive(rcv, []byte("?OTR Error: could not read that"))
			s.W.Q[rcv] = filterOut(s.W.Q[rcv], c)
			s.Exec(SOp{K: "flush"})
			s.W.AgeClock(0, 3*60e9)
			s.W.AgeClock(1, 3*60e9)
			s.Exec(SOp{K: "query", W: op.I & 1})
			s.Exec(SOp{K: "flush"})
			o.Class("complaint-and-refresh")
		case "injcommit":
			// somebody who has seen the traffic (instance tags travel in the clear) sends the receiver a D-H Commit of his
			// own; the answer is lost. Starting an exchange must not weaken the session that is still in use.
			rcv := op.W & 1
			rr := sim.NewRand(uint64(7000 + op.L))
			adv := ref.NewParty(uint16(sc.Cfg.V), refKey(1), func(n int) []byte { x := make([]byte, n); rr.Read(x); return append([]byte{}, x...) })
			if sc.Cfg.V == 3 && s.W.P[rcv].C.IsEncrypted() {
				adv.OurTag, adv.TheirTag = s.W.P[rcv].C.GetTheirInstanceTag(), s.W.P[rcv].C.GetOurInstanceTag()
				if op.F%2 == 0 {
					adv.TheirTag = 0
				}
			}
			before := len(s.W.Q[rcv])
			s.W.Receive(rcv, adv.StartAKE())
			s.W.Q[rcv] = s.W.Q[rcv][:before]
			o.Class("stray-dh-commit")
		case "atk":
			r.attack(op.W&1, op)
		case "rekey":
			s.Exec(SOp{K: "end", W: op.W})
			s.Exec(SOp{K: "flush"})
			s.Exec(SOp{K: "end", W: 1 - op.W})
			s.W.Q[0], s.W.Q[1] = nil, nil
			s.W.AgeClock(0, 3*60e9)
			s.W.AgeClock(1, 3*60e9)
			r.sentSet[0], r.sentSet[1] = map[string]bool{}, map[string]bool{}
			s.asked = [2]bool{}
			s.Exec(SOp{K: "query", W: op.W})
			s.Exec(SOp{K: "flush"})
			o.Class("rekey")
		default:
			s.Exec(op)
		}
	}
	// final sweep: nothing authenticated with a MAC key disclosed on the wire is accepted, for the key ids in current use
	if o.Violation == "" {
		var keys [][]byte
		for k := range s.Obs.Disclosed {
			keys = append(keys, []byte(k))
		}
		sortBytes(keys)
		if len(keys) > 40 {
			keys = keys[len(keys)-40:]
		}
		for rcv := 0; rcv < 2 && o.Violation == ""; rcv++ {
			if !s.W.P[rcv].C.IsEncrypted() {
				continue
			}
			var last *ref.ObsMsg
			for i := len(s.Seen) - 1; i >= 0; i-- {
				if m := s.Seen[i]; m.From != rcv && m.Data != nil && m.Verified {
					last = m
					break
				}
			}
			if last == nil {
				continue
			}
			hdr := last.Raw[:last.Hdr.Len]
			d := last.Data
			if r.forgeMatched(rcv, last) {
				return o
			}
			for _, k := range keys {
				for _, ids := range [][2]uint32{{d.SenderKeyID, d.RecipKeyID}, {d.SenderKeyID, d.RecipKeyID + 1}, {d.SenderKeyID + 1, d.RecipKeyID}} {
					fb := append(append([]byte{}, hdr...), ref.BuildData(hdr, 0, ids[0], ids[1], d.NextDH, d.Ctr+1000, d.Enc, k, nil)...)
					before := len(s.W.Q[rcv])
					c0 := s.W.Receive(rcv, ref.Armor(fb))
					s.W.Q[rcv] = s.W.Q[rcv][:before]
					if s.hasEffect(c0) {
						return o.Fail("C02/accepted-forge-disclosed-key", "%s acted on a data message authenticated with a MAC key that had been disclosed on the wire earlier (sender key %d, recipient key %d)", s.W.P[rcv].Name, ids[0], ids[1])
					}
				}
			}
			if len(keys) > 0 {
				o.Class("final-disclosed-key-sweep")
				r.hits++
			}
		}
	}
	o.NonTrivial = r.hits > 0 || r.resent > 0
	if sc.Cfg.V == 2 {
		o.Class("v2")
	} else {
		o.Class("v3")
	}
	return o
}

func init() { reg("C02attack", runC02); reg("C02sweep", runC02) }

func genAtk(rt *rapid.T) SOp {
	return SOp{K: "atk", W: rapid.IntRange(0, 1).Draw(rt, "w"), X: rapid.IntRange(0, 18).Draw(rt, "kind"),
		L: rapid.IntRange(0, 4000).Draw(rt, "pos"), F: rapid.IntRange(0, 255).Draw(rt, "val")}
}

func TestProp_C02_Attack(t *testing.T) {
	defer sim.MarkCompleted("C02attack", false)
	kinds := []string{"pp", "pp", "send", "send", "send", "dl", "dl", "holdback", "holdback", "injcommit", "complain", "atk", "atk", "atk", "atk", "atk", "atk", "rekey", "smp", "ans", "xk", "age", "injplain", "injplain"}
	rapid.Check(t, func(rt *rapid.T) {
		sc := &SessScript{Cfg: genSessCfg(rt)}
		switch rapid.IntRange(0, 3).Draw(rt, "wsstart") {
		case 0:
			sc.PolA, sc.PolB = sim.PolSendWS, sim.PolWSStart
		case 1:
			// query-started, but both take up whitespace tags
			sc.PolA, sc.PolB = sim.PolWSStart, sim.PolWSStart
		}
		n := rapid.IntRange(2, 40).Draw(rt, "nops")
		for i := 0; i < n; i++ {
			op := genSOp(rt, kinds, 300)
			if op.K == "atk" {
				op = genAtk(rt)
			}
			if op.K == "injplain" {
				op.X = rapid.IntRange(0, 6).Draw(rt, "tagform")
			}
			sc.Ops = append(sc.Ops, op)
		}
		sim.Judge(rt, "C02attack", sc)
	})
}

// TestProp_C02_Sweep: for one message per prefix class, every byte offset of the
// authenticated part × {xor 01, xor 80, :=00, :=FF} and every truncation length.
func TestProp_C02_Sweep(t *testing.T) {
	si, sn := sim.Shard()
	idx := 0
	prefixes := [][]SOp{
		{{K: "send", W: 0, L: 5}},
		{{K: "pp", W: 0, I: 1, L: 3}, {K: "send", W: 1, L: 40}},
	}
	if sim.Thorough() {
		prefixes = append(prefixes,
			[]SOp{{K: "pp", W: 1, I: 2, L: 3}, {K: "smp", W: 0, X: 0}},
			[]SOp{{K: "pp", W: 0, I: 0}, {K: "xk", W: 1, X: 5, S: "u"}})
	}
	for _, v := range []int{3, 2} {
		for pi, pre := range prefixes {
			cfg := SessCfg{V: v, SeedA: 100 + uint64(pi)*2, SeedB: 201 + uint64(pi)*2, KeyA: 1, KeyB: 4}
			dir := pre[len(pre)-1].W
			// length of the authenticated part: run the prefix once
			probe := newSess(&SessScript{Cfg: cfg}, &sim.Outcome{})
			probe.Handshake(0)
			for _, op := range pre {
				probe.Exec(op)
			}
			u := probe.byWire[probe.W.Q[dir][0]].u
			authEnd := u.Obs.Hdr.Len + u.Obs.Data.AuthLen + 20
			step := 1
			if !sim.Thorough() {
				step = 3
			}
			// every structured attack kind once per prefix class (field substitutions, forgeries, re-encodings)
			for x := 3; x < 19; x++ {
				for _, lf := range [][2]int{{0, 0}, {1, 1}, {2, 2}, {3, 3}} {
					idx++
					if idx%sn != si {
						continue
					}
					m := SOp{K: "atk", W: dir, X: x, L: lf[0], F: lf[1]}
					sc := &SessScript{Cfg: cfg, Ops: append(append([]SOp{}, pre...), m, SOp{K: "flush"})}
					sim.Judge(t, "C02sweep", sc)
				}
			}
			for pos := 0; pos < authEnd; pos += step {
				for _, m := range []SOp{{X: 0, F: 0}, {X: 0, F: 7}, {X: 1, F: 0}, {X: 1, F: 255}, {X: 2}} {
					idx++
					if idx%sn != si {
						continue
					}
					m.K, m.W, m.L = "atk", dir, pos
					sc := &SessScript{Cfg: cfg, Ops: append(append([]SOp{}, pre...), m, SOp{K: "flush"})}
					sim.Judge(t, "C02sweep", sc)
				}
			}
		}
	}
	sim.MarkCompleted("C02sweep", true)
}

// TestProp_C02_Resent: for every text length in a range, the text is sent, the peer's client reports it unreadable,
// the parties re-key inside the session and the library sends its last message once more: what comes out of the
// peer's Receive must be "[resent] " followed by exactly the text that was passed to Send (buffer sizes round up to
// allocator classes, so whether a remembered text shares memory with something written later depends on its length).
func TestProp_C02_Resent(t *testing.T) {
	si, sn := sim.Shard()
	idx := 0
	max, per := 900, 10
	if sim.Thorough() {
		max = 4200
	}
	for _, v := range []int{3, 2} {
		for from := 0; from < max; from += per {
			idx++
			if idx%sn != si {
				continue
			}
			sc := &SessScript{Cfg: SessCfg{V: v, SeedA: 2400, SeedB: 2501, KeyA: 0, KeyB: 3}}
			for l := from; l < from+per; l++ {
				w := l & 1
				sc.Ops = append(sc.Ops, SOp{K: "send", W: w, L: l, F: l % 5}, SOp{K: "flush"}, SOp{K: "complain", W: w, I: (l >> 1) & 1})
			}
			sim.Judge(t, "C02resent", sc)
		}
	}
	sim.MarkCompleted("C02resent", true)
}

func init() { reg("C02resent", runC02) }
