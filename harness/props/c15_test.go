package props

import (
	"bytes"
	"encoding/binary"
	"fmt"
	"testing"

	"github.com/coyim/otr3"
	"pgregory.net/rapid"

	"verif/harness/ref"
	"verif/harness/sim"
)

// ---- C15: instance tags isolate conversations between client instances ----

// TagStep is one step of an instance-tag script.
type TagStep struct {
	K  string `json:"k"`            // hostile, handshake, text, fake, frag, vsend
	ST int    `json:"st,omitempty"` // sender tag class
	RT int    `json:"rt,omitempty"` // receiver tag class
	M  int    `json:"m,omitempty"`  // message kind for hostile AKE messages
}

// C15Script is a generated case.
type C15Script struct {
	Cfg   SessCfg   `json:"cfg"`
	Own   []uint32  `json:"own"`            // values served to the victim's instance-tag draws
	Lazy  bool      `json:"lazy,omitempty"` // the victim has not generated its own tag before the first message arrives
	Both  bool      `json:"both,omitempty"` // the victim's policy allows version 2 as well (the peer speaks version 3)
	Steps []TagStep `json:"steps"`
}

// tag classes: 0 zero, 1 small (1..0xff), 2 victim's own, 3 the genuine peer's, 4 other valid, 5 0x100 exactly, 6 0xffffffff
func (r *c15run) tagOf(class, salt int) uint32 {
	switch class % 7 {
	case 0:
		return 0
	case 1:
		return uint32(1 + salt%0xff)
	case 2:
		if !r.ownKnown {
			return 0x6000 + uint32(salt) // the victim has no tag yet: any valid tag is "somebody else's"
		}
		return r.m.A.C.GetOurInstanceTag()
	case 3:
		return r.m.R.OurTag
	case 4:
		return 0x5000 + uint32(salt)
	case 5:
		return 0x100
	}
	return 0xffffffff
}

// learnOwn notes that the victim has an instance tag of its own once a four-byte draw of at least 0x100 is on record.
func (r *c15run) learnOwn() {
	if r.ownKnown {
		return
	}
	for _, d := range r.m.A.R.Draws {
		if d.N == 4 && binary.BigEndian.Uint32(d.Data) >= 0x100 {
			r.ownKnown = true
			return
		}
	}
}

type c15run struct {
	m           *Mix
	o           *sim.Outcome
	other       *ref.Party // a second client instance of the peer's account
	bound       uint32
	ownKnown    bool
	lastRefused bool
	hits        int
	nText       int
	sentR       []string
	gotA        []string
}

func malformedTags(st, rt uint32) bool { return st < 0x100 || (rt > 0 && rt < 0x100) }

func (r *c15run) checkExtract(wire []byte, wantOK bool, st, rt uint32) {
	ours, theirs, ok := otr3.ExtractInstanceTags(wire)
	if ok != wantOK {
		r.o.Fail("C15/extract-ok", "ExtractInstanceTags(%.40q...) returned ok=%v, expected %v", wire, ok, wantOK)
		return
	}
	if ok && (ours != rt || theirs != st) {
		r.o.Fail("C15/extract-tags", "ExtractInstanceTags reported receiver %#x / sender %#x for a message carrying receiver %#x / sender %#x", ours, theirs, rt, st)
	}
}

// deliverHostile gives the victim a message and judges what must not happen.
func (r *c15run) deliverHostile(wire []byte, st, rt uint32, what string) {
	v := r.m.A
	before := v.C.GetTheirInstanceTag()
	if r.bound != 0 && before != r.bound {
		r.o.Fail("C15/binding-lost", "the conversation was bound to peer instance %#x by a completed key exchange and now reports %#x (before %s arrived)", r.bound, before, what)
		return
	}
	own := uint32(0)
	if r.ownKnown {
		own = v.C.GetOurInstanceTag()
	}
	inFlight := len(r.m.QtoR)
	c := r.m.AReceive(wire)
	r.lastRefused = c.Err != nil
	// replies to hostile messages never reach the genuine peer in this world (what was in flight before stays)
	r.m.QtoR = r.m.QtoR[:inFlight]
	after := v.C.GetTheirInstanceTag()
	// the victim may have chosen its own instance tag without telling anybody (the first message that makes it look at
	// a receiver tag does that): what it drew is on record in its randomness source
	r.learnOwn()
	if r.ownKnown {
		if now := v.C.GetOurInstanceTag(); own == 0 || own != now {
			if rt == now {
				own = now // addressed to the tag the victim has (just) given itself: not foreign
			}
		}
	}
	foreign := before != 0 && (st != before || (rt != 0 && rt != own))
	switch {
	case malformedTags(st, rt):
		if after != before {
			r.o.Fail("C15/bound-by-malformed", "%s with malformed tags (sender %#x, receiver %#x) changed the peer instance tag from %#x to %#x", what, st, rt, before, after)
			return
		}
		if c.HasPl || len(nonError(c.Out)) > 0 {
			r.o.Fail("C15/malformed-acted-on", "%s with malformed tags (sender %#x, receiver %#x) was acted upon (plaintext=%v, %d replies)", what, st, rt, c.HasPl, len(c.Out))
			return
		}
		r.hits++
	case foreign:
		if c.HasPl || len(c.Out) > 0 {
			r.o.Fail("C15/foreign-acted-on", "%s from/for another instance (sender %#x, receiver %#x; bound peer %#x, own %#x) was not ignored: plaintext=%v %q, %d replies", what, st, rt, before, own, c.HasPl, c.Plain, len(c.Out))
			return
		}
		if after != before {
			r.o.Fail("C15/rebound", "%s from another instance changed the bound peer tag from %#x to %#x", what, before, after)
			return
		}
		if v.C.IsEncrypted() {
			r.hits++
		}
	case before == 0 && c.Err != nil && after != 0:
		// valid tags, nobody bound yet, and the message was refused (its body is not what its type says, or cut short):
		// only a well-formed message tells the conversation who its peer is
		r.o.Fail("C15/bound-by-refused-message", "%s with valid tags (sender %#x, receiver %#x) was refused (%v) and yet bound the conversation to peer instance %#x", what, st, rt, c.Err, after)
		return
	case before == 0 && rt != 0 && rt != own:
		// valid tags, addressed to another instance, nothing bound yet: binding is left unconstrained,
		// but the message itself is not for us
		if c.HasPl || len(c.Out) > 0 {
			r.o.Fail("C15/foreign-acted-on", "%s addressed to instance %#x (own %#x) was not ignored", what, rt, own)
		}
	}
}

func nonError(out [][]byte) [][]byte {
	var r [][]byte
	for _, m := range out {
		if !bytes.HasPrefix(m, []byte("?OTR Error")) {
			r = append(r, m)
		}
	}
	return r
}

func runC15(sc *C15Script) *sim.Outcome {
	o := &sim.Outcome{}
	cfg := sc.Cfg
	cfg.V = 3
	polA := 0
	if sc.Both {
		polA = sim.PolV2
	}
	m := newMix(cfg, polA)
	r := &c15run{m: m, o: o}
	for _, t := range sc.Own {
		m.A.R.Force4 = append(m.A.R.Force4, ref.PutU32(nil, t))
	}
	own := uint32(0)
	if !sc.Lazy {
		own = m.A.C.GetOurInstanceTag()
		r.ownKnown = true
		if own < 0x100 {
			return o.Fail("C15/own-tag", "the conversation chose instance tag %#x for itself (randomness offered %v)", own, sc.Own)
		}
	} else {
		o.Class("own-tag-not-yet-generated")
	}
	for _, t := range sc.Own {
		if t < 0x100 {
			o.Class("own-tag-draw-rejected")
			break
		}
	}
	// a second instance of the peer's account (own key pool entry, own tag)
	oRand := sim.NewRand(cfg.SeedB + 77)
	r.other = ref.NewParty(3, refKey(cfg.KeyB), func(n int) []byte { b := make([]byte, n); oRand.Read(b); return append([]byte{}, b...) })
	established := false
	hostileBefore := false
	mayBind := false
	for si, st := range sc.Steps {
		if o.Violation != "" {
			return o
		}
		switch st.K {
		case "hostile":
			// an AKE message (D-H Commit of the other instance, or a D-H Key / Reveal / Signature shaped message) with chosen tags
			stag, rtag := r.tagOf(st.ST, si), r.tagOf(st.RT, si+3)
			r.other.OurTag, r.other.TheirTag = stag, rtag
			r.other.State = ref.StNone
			wire := r.other.StartAKE()
			if st.M%4 != 0 {
				raw, _ := ref.Dearmor(wire)
				raw[2] = []byte{ref.TypeDHCommit, ref.TypeDHKey, ref.TypeRevealSig, ref.TypeSignature}[st.M%4]
				wire = ref.Armor(raw)
			}
			if st.M >= 4 {
				// ... cut short behind the header, or in the middle of the body
				raw, _ := ref.Dearmor(wire)
				wire = ref.Armor(raw[:11+(st.M*7)%(len(raw)-11)])
			}
			r.checkExtract(wire, true, stag, rtag)
			r.deliverHostile(wire, stag, rtag, "a key-exchange message")
			if !established {
				hostileBefore = true
				if !malformedTags(stag, rtag) && !r.lastRefused {
					// a well-formed message of some other instance may legitimately bind the conversation to that instance
					mayBind = true
				}
			}
			o.Class(fmt.Sprintf("hostile-ake-s%d-r%d", st.ST%7, st.RT%7))
		case "requery":
			// somebody asks the victim to renegotiate (an untagged query, a minute or more after the last exchange):
			// the victim opens a new key exchange, which must not loosen the binding to its peer instance
			sim.Age(m.A.C, 3*60e9)
			bound := m.A.C.GetTheirInstanceTag()
			m.AReceive([]byte("?OTRv3?"))
			// (the victim's D-H Commit stays in flight: the genuine peer answers it when traffic is next settled)
			if got := m.A.C.GetTheirInstanceTag(); got != bound {
				return o.Fail("C15/rebound", "opening a new key exchange changed the bound peer instance from %#x to %#x", bound, got)
			}
			// (answering the query made the victim choose its own instance tag if it had none)
			r.ownKnown = true
			own = m.A.C.GetOurInstanceTag()
			o.Class("renegotiation-opened")
		case "handshake":
			if established {
				continue
			}
			before := m.A.C.GetTheirInstanceTag()
			if mayBind && before != 0 {
				o.Class("bound-to-other-valid-instance")
				o.NonTrivial = r.hits > 0
				return o
			}
			ok := m.Establish(st.M & 1)
			if !ok {
				sig := "C15/handshake-blocked"
				return o.Fail(sig, "a genuine handshake did not complete (hostile message seen before: %v; peer tag bound before the handshake: %#x, genuine peer's tag %#x)", hostileBefore, before, m.R.OurTag)
			}
			if got := m.A.C.GetTheirInstanceTag(); got != m.R.OurTag {
				return o.Fail("C15/wrong-peer-bound", "after the handshake the conversation is bound to peer instance %#x, the peer's tag is %#x", got, m.R.OurTag)
			}
			established = true
			r.bound = m.R.OurTag
			r.ownKnown = true
			own = m.A.C.GetOurInstanceTag()
			if own < 0x100 {
				return o.Fail("C15/own-tag", "the conversation chose instance tag %#x for itself (randomness offered %v)", own, sc.Own)
			}
			for _, w := range m.Seen {
				if w.From == 0 && w.Raw != nil {
					r.checkExtract(w.Wire, true, w.Hdr.Sender, w.Hdr.Recv)
				}
			}
		case "peerend":
			// the genuine peer ends the session: the conversation is finished, but it still belongs to that peer instance
			if !established || !m.A.C.IsEncrypted() {
				continue
			}
			m.Settle(nil, nil)
			m.fromR(m.R.End())
			m.Settle(nil, nil)
			if st.M%2 == 1 {
				out, _ := m.A.C.End()
				_ = out
			}
			o.Class("peer-ended-session")
		case "rehandshake":
			// the same peer instance comes back
			if !established || m.A.C.IsEncrypted() {
				continue
			}
			m.R.Encrypted, m.R.Finished = false, false
			// (a D-H Commit the victim may have in flight from a renegotiation is answered, not dropped: dropping it
			// would manufacture the crossing-commits pattern of the open C07 finding)
			m.Settle(nil, nil)
			sim.Age(m.A.C, 3*60e9)
			if !(m.A.C.IsEncrypted() && m.R.Encrypted) && !m.Establish(st.M&1) {
				return o.Fail("C15/handshake-blocked", "after the peer had ended the session (and hostile traffic since), the same peer instance could not open a new one (bound %#x, peer %#x)", m.A.C.GetTheirInstanceTag(), m.R.OurTag)
			}
			if got := m.A.C.GetTheirInstanceTag(); got != m.R.OurTag {
				return o.Fail("C15/wrong-peer-bound", "after the new handshake the conversation is bound to %#x, the peer's tag is %#x", got, m.R.OurTag)
			}
			o.Class("session-reopened")
		case "text":
			if !established || !m.A.C.IsEncrypted() || !m.R.Encrypted {
				continue
			}
			m.Settle(nil, nil) // completes a renegotiation that may be in flight
			r.nText++
			t := token(1, r.nText)
			w := m.R.Send([]byte(t))
			r.checkExtract(w, true, m.R.OurTag, m.R.TheirTag)
			c := m.AReceive(w)
			if !c.HasPl || string(c.Plain) != t {
				return o.Fail("C15/genuine-disturbed", "a genuine message of the bound peer was not delivered after hostile traffic (err=%v)", c.Err)
			}
		case "vsend":
			if !established || !m.A.C.IsEncrypted() || !m.R.Encrypted {
				continue
			}
			m.Settle(nil, nil)
			c := m.ASend([]byte(token(0, si)))
			for _, w := range c.Out {
				r.checkExtract(w, true, own, m.R.OurTag)
			}
			for len(m.QtoR) > 0 {
				if _, err, _ := m.DeliverToR(); err != nil {
					return o.Fail("C15/genuine-disturbed", "the peer could not read the victim's message: %v", err)
				}
			}
		case "fake":
			// a data message with a valid MAC (made by the authenticated peer) but other tags
			if !established || !m.A.C.IsEncrypted() || !m.R.Encrypted {
				continue
			}
			stag, rtag := r.tagOf(st.ST, si), r.tagOf(st.RT, si+3)
			if stag == r.bound && (rtag == 0 || rtag == own) {
				// these tags are acceptable: an ordinary message that must be delivered
				w := m.R.SendOpts([]byte("acceptable tags"), ref.DataOpts{SenderTag: &stag, RecvTag: &rtag})
				r.checkExtract(w, true, stag, rtag)
				if c := m.AReceive(w); !c.HasPl {
					return o.Fail("C15/acceptable-rejected", "a data message with the peer's tag and receiver tag %#x was not delivered (err=%v)", rtag, c.Err)
				}
				o.Class("data-with-acceptable-tags")
				continue
			}
			w := m.R.SendOpts([]byte("foreign text"), ref.DataOpts{SenderTag: &stag, RecvTag: &rtag, KeepCounter: true})
			r.checkExtract(w, true, stag, rtag)
			r.deliverHostile(w, stag, rtag, "a data message")
			o.Class(fmt.Sprintf("foreign-data-s%d-r%d", st.ST%7, st.RT%7))
		case "frag":
			stag, rtag := r.tagOf(st.ST, si), r.tagOf(st.RT, si+3)
			payload := []byte("plain payload in fragments")
			frs := [][]byte{ref.MakeFragment(true, stag, rtag, 1, 2, payload[:9]), ref.MakeFragment(true, stag, rtag, 2, 2, payload[9:])}
			bound := m.A.C.GetTheirInstanceTag()
			if !established && !malformedTags(stag, rtag) {
				mayBind = true
			}
			for _, f := range frs {
				r.checkExtract(f, true, stag, rtag)
				if bound != 0 && stag == bound && (rtag == 0 || rtag == own) {
					m.AReceive(f)
					continue
				}
				r.deliverHostile(f, stag, rtag, "a fragment")
			}
			o.Class(fmt.Sprintf("frag-s%d-r%d", st.ST%7, st.RT%7))
		case "fragmid":
			// the bound peer's text arrives in pieces; between the pieces a fragment with other tags (reserved, foreign,
			// addressed elsewhere) - or one in version 2 framing, which carries none - comes by. Whatever becomes of
			// the intruder, the peer's message is still delivered, and nothing else is
			if !established || !m.A.C.IsEncrypted() || !m.R.Encrypted {
				continue
			}
			m.Settle(nil, nil)
			r.nText++
			t := token(1, r.nText) + " in several pieces, long enough to be cut"
			whole := m.R.Send([]byte(t))
			n := 3 + st.M%3
			sz := (len(whole) + n - 1) / n
			var pieces [][]byte
			for i := 0; i < len(whole); i += sz {
				e := i + sz
				if e > len(whole) {
					e = len(whole)
				}
				pieces = append(pieces, whole[i:e])
			}
			stag, rtag := r.tagOf(st.ST, si), r.tagOf(st.RT, si+3)
			at := 1 + st.M%(len(pieces)-1)
			var got []byte
			for i, pc := range pieces {
				if i == at {
					intruder := ref.MakeFragment(true, stag, rtag, 1+st.M%2, 2, []byte("intruder"))
					if st.M%4 == 3 {
						intruder = ref.MakeFragment(false, 0, 0, i+1, len(pieces), []byte("dGFnbGVzcw"))
					}
					if !(stag == r.bound && (rtag == 0 || rtag == own)) || st.M%4 == 3 {
						ci := m.AReceive(intruder)
						if ci.HasPl {
							return o.Fail("C15/foreign-acted-on", "a fragment with sender tag %#x / receiver tag %#x (or without tags) that arrived between the bound peer's pieces made Receive return %.40q", stag, rtag, ci.Plain)
						}
						m.QtoR = nil
					}
				}
				c := m.AReceive(ref.MakeFragment(true, m.R.OurTag, m.R.TheirTag, i+1, len(pieces), pc))
				if c.HasPl {
					got = c.Plain
				}
			}
			if string(got) != t {
				return o.Fail("C15/genuine-disturbed", "the bound peer's text, sent in %d pieces, was not delivered after a fragment with sender tag %#x / receiver tag %#x (version 2 framing: %v) came by between pieces %d and %d", len(pieces), stag, rtag, st.M%4 == 3, at, at+1)
			}
			o.Class("intruder-between-pieces")
			r.hits++
		case "extract":
			// inputs that carry no tags
			for _, w := range [][]byte{[]byte("?OTR:"), []byte("?OTR:AAMC"), []byte("?OTR|"), []byte("?OTR|1234|5678,"), []byte("?OTR,1,2,x,"), []byte("?OTRv23?"), []byte("hello"), nil, []byte("?OTR:====."), []byte("?OTR:AAM."),
				ref.Armor(ref.PutHeader(2, ref.TypeData, 0, 0)), []byte("?OTR|zzzzzzzz|00000100,00001,00001,x,")} {
				_, _, ok := otr3.ExtractInstanceTags(w)
				if ok {
					return o.Fail("C15/extract-ok", "ExtractInstanceTags(%q) reported ok for an input that carries no instance tags", w)
				}
			}
			o.Class("extract-negative")
		}
	}
	if o.Violation != "" {
		return o
	}
	m.Settle(nil, nil)
	if !established && !(mayBind && m.A.C.GetTheirInstanceTag() != 0) {
		if !m.Establish(0) {
			return o.Fail("C15/handshake-blocked", "a genuine handshake after the hostile traffic did not complete (peer tag bound: %#x, genuine peer's tag %#x)", m.A.C.GetTheirInstanceTag(), m.R.OurTag)
		}
	}
	o.NonTrivial = r.hits > 0
	return o
}

func init() { reg("C15tags", runC15); reg("C15matrix", runC15) }

func TestProp_C15_Tags(t *testing.T) {
	defer sim.MarkCompleted("C15tags", false)
	kinds := []string{"hostile", "hostile", "hostile", "handshake", "handshake", "text", "text", "vsend", "fake", "fake", "fake", "frag", "frag", "extract", "requery", "requery", "peerend", "peerend", "rehandshake", "fragmid", "fragmid"}
	rapid.Check(t, func(rt *rapid.T) {
		sc := &C15Script{Cfg: genSessCfg(rt), Lazy: rapid.IntRange(0, 2).Draw(rt, "lazy") == 0, Both: rapid.IntRange(0, 2).Draw(rt, "both") == 0}
		sc.Cfg.FragA, sc.Cfg.FragB = 0, 0
		nOwn := rapid.SampledFrom([]int{0, 1, 2, 3, 5, 8, 12}).Draw(rt, "nown")
		for i := 0; i < nOwn; i++ {
			sc.Own = append(sc.Own, rapid.SampledFrom([]uint32{0, 1, 0x42, 0xff, 0x100, 0x101, 0xffffffff, 0x80000000}).Draw(rt, "own"))
		}
		n := rapid.IntRange(1, 14).Draw(rt, "nsteps")
		for i := 0; i < n; i++ {
			sc.Steps = append(sc.Steps, TagStep{K: rapid.SampledFrom(kinds).Draw(rt, "k"), ST: rapid.IntRange(0, 6).Draw(rt, "st"), RT: rapid.IntRange(0, 6).Draw(rt, "rt"), M: rapid.IntRange(0, 7).Draw(rt, "m")})
		}
		sim.Judge(rt, "C15tags", sc)
	})
}

// TestProp_C15_Matrix: every sender x receiver tag class, on each message kind, before and after binding.
func TestProp_C15_Matrix(t *testing.T) {
	si, sn := sim.Shard()
	idx := 0
	for st := 0; st < 7; st++ {
		for rt := 0; rt < 7; rt++ {
			for _, shape := range [][]TagStep{
				{{K: "hostile", ST: st, RT: rt}, {K: "handshake"}, {K: "text"}},
				{{K: "hostile", ST: st, RT: rt, M: 1}, {K: "handshake", M: 1}, {K: "text"}},
				{{K: "hostile", ST: st, RT: rt, M: 4}, {K: "handshake"}, {K: "text"}},
				{{K: "hostile", ST: st, RT: rt, M: 6}, {K: "hostile", ST: st, RT: rt, M: 5}, {K: "handshake", M: 1}, {K: "text"}},
				{{K: "frag", ST: st, RT: rt}, {K: "handshake"}, {K: "text"}},
				{{K: "handshake"}, {K: "fake", ST: st, RT: rt}, {K: "text"}, {K: "vsend"}},
				{{K: "handshake", M: 1}, {K: "frag", ST: st, RT: rt}, {K: "text"}},
				{{K: "handshake"}, {K: "hostile", ST: st, RT: rt, M: 2}, {K: "text"}},
				{{K: "handshake"}, {K: "requery"}, {K: "hostile", ST: st, RT: rt}, {K: "fake", ST: st, RT: rt}},
				{{K: "handshake"}, {K: "fragmid", ST: st, RT: rt}, {K: "fragmid", ST: st, RT: rt, M: 3}, {K: "text"}},
				{{K: "handshake", M: 1}, {K: "fragmid", ST: st, RT: rt, M: 1}, {K: "fragmid", ST: st, RT: rt, M: 2}, {K: "vsend"}},
				// the peer has ended the session (the user has closed it, or not yet): messages of other instances are still not for us
				{{K: "handshake"}, {K: "peerend"}, {K: "hostile", ST: st, RT: rt}, {K: "frag", ST: st, RT: rt}, {K: "rehandshake"}, {K: "text"}},
				{{K: "handshake", M: 1}, {K: "peerend", M: 1}, {K: "hostile", ST: st, RT: rt}, {K: "rehandshake", M: 1}, {K: "text"}, {K: "vsend"}},
			} {
				for _, lazy := range []bool{false, true} {
					if lazy && shape[0].K == "handshake" {
						continue
					}
					idx++
					if idx%sn != si {
						continue
					}
					sim.Judge(t, "C15matrix", &C15Script{Cfg: SessCfg{V: 3, SeedA: 500, SeedB: 601, KeyA: 2, KeyB: 5}, Steps: shape, Lazy: lazy})
					if len(shape) > 1 && shape[1].K == "fragmid" {
						sim.Judge(t, "C15matrix", &C15Script{Cfg: SessCfg{V: 3, SeedA: 500, SeedB: 601, KeyA: 2, KeyB: 5}, Steps: shape, Lazy: lazy, Both: true})
					}
				}
			}
		}
	}
	// the randomness source offers 0..10 reserved values (< 0x100) before a usable one
	for n := 0; n <= 10; n++ {
		idx++
		if idx%sn != si {
			continue
		}
		var own []uint32
		for i := 0; i < n; i++ {
			own = append(own, []uint32{0, 1, 0xff, 0x42}[i%4])
		}
		sim.Judge(t, "C15matrix", &C15Script{Cfg: SessCfg{V: 3, SeedA: 500, SeedB: 601, KeyA: 2, KeyB: 5}, Own: append(own, 0x1234), Steps: []TagStep{{K: "handshake"}, {K: "text"}, {K: "vsend"}}})
	}
	sim.MarkCompleted("C15matrix", true)
}
