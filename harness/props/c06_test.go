package props

import (
	"bytes"
	"crypto/sha256"
	"encoding/binary"
	"fmt"
	"math/big"
	"strings"
	"testing"

	"pgregory.net/rapid"

	"verif/harness/ref"
	"verif/harness/sim"
)

// ---- C06: a rejected message leaves the session exactly as it was ----

// TwinScript: a history run in two worlds; world 1 additionally receives one rejected input at op index At.
type TwinScript struct {
	Cfg SessCfg `json:"cfg"`
	Pol int     `json:"pol,omitempty"` // extra policy bits for both parties (e.g. require-encryption, which queues texts)
	Ops []SOp   `json:"ops"`
	At  int     `json:"at"` // the rejected input is delivered before op At (modulo len+1)
	R   SOp     `json:"r"`  // how the rejected input is derived: W receiver, I source selector, X kind, L position, F value
	// Fresh: the two conversations have never talked before (no peer instance known, no keys, no earlier exchange)
	Fresh bool `json:"fresh,omitempty"`
}

func outSummary(out [][]byte) []string {
	var s []string
	for _, m := range out {
		switch ref.Classify(m) {
		case ref.KQuery:
			s = append(s, "query:"+string(m))
		case ref.KError:
			s = append(s, "error:"+string(m))
		case ref.KPlain, ref.KTagged:
			s = append(s, "text:"+string(m))
		case ref.KEncoded:
			raw, _ := ref.Dearmor(m)
			h, err := ref.ParseHeader(raw)
			if err != nil {
				s = append(s, "encoded:?")
				continue
			}
			if h.Type != ref.TypeData {
				s = append(s, fmt.Sprintf("ake:%02x v%d", h.Type, h.Version))
				continue
			}
			d, err := ref.ParseData(raw[h.Len:])
			if err != nil {
				s = append(s, "data:?")
				continue
			}
			s = append(s, fmt.Sprintf("data: v%d flags=%d sender=%d recipient=%d ctr=%d", h.Version, d.Flags, d.SenderKeyID, d.RecipKeyID, d.Ctr))
		default:
			s = append(s, "other")
		}
	}
	return s
}

func callObs(w *sim.World, c *sim.Call, v3 bool) string {
	p := w.P[c.Who]
	var b strings.Builder
	plain := string(c.Plain)
	if c.Name == "UseExtraSymmetricKey" {
		// the key itself depends on the DH secrets, i.e. on randomness a rejected key-exchange message may have consumed
		plain = fmt.Sprintf("<%d-byte key>", len(c.Plain))
	}
	fmt.Fprintf(&b, "%s.%s plain=%v %q err=%v enc=%v smp=%v sec=%v msg=", p.Name, c.Name, c.HasPl, plain, c.Err, c.EncAft, c.NewSMP(p), c.NewSec(p))
	for _, e := range c.NewMsg(p) {
		fmt.Fprintf(&b, "(%v %q %s)", e.Ev, e.Msg, e.Err)
	}
	fmt.Fprintf(&b, " keys=%d out=%v", len(c.NewSym(p)), outSummary(c.Out))
	var fp []byte
	if k := p.C.GetTheirKey(); k != nil && p.C.IsEncrypted() {
		fp = k.Fingerprint()
	}
	fmt.Fprintf(&b, " fp=%x", fp)
	if v3 {
		// (GetOurInstanceTag draws randomness when no tag exists yet, which only version 3 conversations have by now)
		fmt.Fprintf(&b, " tags=%x/%x", p.C.GetOurInstanceTag(), p.C.GetTheirInstanceTag())
	}
	return b.String()
}

// deriveRejected builds the input from genuine traffic, without using session keys.
func deriveRejected(s *Sess, r SOp) ([]byte, string) {
	w := s.W
	rcv := r.W & 1
	if r.X >= 100 {
		// a query message: ignored (nothing returned, nothing sent) when it arrives within a minute of a key exchange or
		// of key-exchange activity; complete, cut short, or offering other versions than the one in use
		forms := []string{"?OTRv23?", "?OTRv2?", "?OTRv3?", "?OTRv2", "?OTRv3", "?OTR?v2?", "?OTRv32?", "?OTRv?", "?OTRv4?"}
		return []byte(forms[r.X%len(forms)]), "query-ignored"
	}
	// source: the message at the head of the queue towards rcv (if any), else a logged message of the peer
	var src []byte
	fromQueue := false
	if q := w.Q[1-rcv]; len(q) > 0 && r.I%3 != 2 {
		src = q[0].Data
		fromQueue = true
	} else {
		var cands [][]byte
		for _, wr := range w.Log {
			if wr.From == 1-rcv && ref.Classify(wr.Data) == ref.KEncoded {
				cands = append(cands, wr.Data)
			}
		}
		if len(cands) == 0 {
			return nil, ""
		}
		src = cands[r.I%len(cands)]
	}
	raw, ok := ref.Dearmor(src)
	if !ok {
		return nil, ""
	}
	h, err := ref.ParseHeader(raw)
	if err != nil {
		return nil, ""
	}
	out := append([]byte{}, raw...)
	kind := ""
	body := h.Len
	if h.Type == ref.TypeData {
		d, err := ref.ParseData(raw[body:])
		if err != nil {
			return nil, ""
		}
		put := func(field string, val []byte) {
			f := d.Fields[field]
			out = append(append(append([]byte{}, raw[:body+f[0]]...), val...), raw[body+f[1]:]...)
		}
		switch r.X % 10 {
		case 0:
			out[r.L%(body+d.AuthLen+20)] ^= 1 << uint(r.F%8)
			kind = "data-bitflip"
		case 1:
			put("ctr", ref.PutU64(nil, d.Ctr+[]uint64{1, 1 << 60, 1000, ^uint64(0) - d.Ctr}[r.F%4]))
			kind = "data-counter-raised"
		case 2:
			put("senderkeyid", ref.PutU32(nil, d.SenderKeyID+uint32(1+r.F%3)))
			kind = "data-senderkeyid"
		case 3:
			put("recipkeyid", ref.PutU32(nil, d.RecipKeyID+uint32(1+r.F%3)))
			kind = "data-recipkeyid"
		case 4:
			mac := append([]byte{}, d.MAC...)
			mac[r.L%20] ^= 0x10
			put("mac", mac)
			kind = "data-mac"
		case 5:
			out = out[:r.L%len(out)]
			kind = "data-truncated"
		case 6:
			if h.Version == 3 {
				copy(out[3+4*(r.F%2):], ref.PutU32(nil, []uint32{1, 0xff, 0x4711abcd, 0}[r.L%4]))
				kind = "data-tags"
			} else {
				out[1] = 3
				kind = "data-version"
			}
		case 7:
			out[1] ^= 1 // version 2 <-> 3
			kind = "data-version"
		case 8:
			put("nextdh", ref.PutMPI(nil, []*big.Int{big.NewInt(1), ref.P, new(big.Int).Add(d.NextDH, big.NewInt(1))}[r.F%3]))
			kind = "data-nextdh"
		case 9:
			if fromQueue {
				return nil, "" // an exact copy of an undelivered message is not a rejected input
			}
			kind = "data-replay"
		}
	} else {
		switch r.X % 8 {
		case 7:
			// one length prefix of the message's DATA/MPI fields altered (the bytes behind it stay where they are)
			var offs []int // offsets of the 4-byte length prefixes
			switch h.Type {
			case ref.TypeDHCommit:
				if len(raw) >= body+4 {
					l0 := int(binary.BigEndian.Uint32(raw[body:]))
					offs = append(offs, body)
					if body+4+l0+4 <= len(raw) {
						offs = append(offs, body+4+l0)
					}
				}
			case ref.TypeDHKey, ref.TypeSignature:
				offs = append(offs, body)
			case ref.TypeRevealSig:
				if len(raw) >= body+4 {
					l0 := int(binary.BigEndian.Uint32(raw[body:]))
					offs = append(offs, body)
					if body+4+l0+4 <= len(raw) {
						offs = append(offs, body+4+l0)
					}
				}
			}
			if len(offs) == 0 {
				return nil, ""
			}
			off := offs[r.L%len(offs)]
			n := binary.BigEndian.Uint32(raw[off:])
			nv := []uint32{0, n - 1, n + 1, n ^ 0x20, n ^ 0x01, n + 4}[r.F%6]
			copy(out[off:], ref.PutU32(nil, nv))
			kind = "ake-length-prefix"
		case 6:
			// an out-of-range D-H value in place of the genuine one
			if h.Type != ref.TypeDHKey {
				return nil, ""
			}
			vals := []*big.Int{big.NewInt(1), big.NewInt(0), new(big.Int).Sub(ref.P, big.NewInt(1)), ref.P, new(big.Int).Add(ref.P, big.NewInt(1))}
			out = append(append([]byte{}, raw[:body]...), ref.PutMPI(nil, vals[r.F%len(vals)])...)
			kind = "ake-dhkey-out-of-range"
		case 0:
			out[body+r.L%(len(out)-body)] ^= 1 << uint(r.F%8)
			kind = "ake-bitflip"
		case 1:
			out = out[:body+r.L%(len(out)-body)]
			kind = "ake-truncated"
		case 2:
			if h.Version == 3 && r.F%5 == 4 {
				// from some other client instance to some other instance of ours: not for this conversation
				copy(out[3:], ref.PutU32(nil, 0x4711abcd))
				copy(out[7:], ref.PutU32(nil, 0x5eed0100))
				kind = "ake-for-another-instance"
			} else if h.Version == 3 && r.F%5 == 2 {
				copy(out[7:], ref.PutU32(nil, 0x5eed0100)) // from the peer to another instance of ours
				kind = "ake-for-another-instance"
			} else if h.Version == 3 {
				copy(out[3+4*(r.F%2):], ref.PutU32(nil, []uint32{1, 0xff, 0x4711abcd}[r.L%3]))
				kind = "ake-tags"
			} else {
				out[1] = 3
				kind = "ake-version"
			}
		case 3:
			out[1] ^= 1
			kind = "ake-version"
		case 4:
			if fromQueue {
				return nil, ""
			}
			kind = "ake-replay"
		case 5:
			out[2] = []byte{ref.TypeDHKey, ref.TypeRevealSig, ref.TypeSignature, 0x55}[r.F%4]
			kind = "ake-retyped"
		}
	}
	return ref.Armor(out), kind
}

func runTwin(sc *TwinScript) *sim.Outcome {
	o := &sim.Outcome{}
	worlds := [2]*Sess{newSess(&SessScript{Cfg: sc.Cfg, PolA: sc.Pol, PolB: sc.Pol}, &sim.Outcome{}), newSess(&SessScript{Cfg: sc.Cfg, PolA: sc.Pol, PolB: sc.Pol}, &sim.Outcome{})}
	for _, s := range worlds {
		if !sc.Fresh && !s.Handshake(sc.Cfg.Starter) {
			o.Discard = true
			return o
		}
	}
	at := sc.At % (len(sc.Ops) + 1)
	kind := ""
	delivered := [2]int{}
	exact, exactOps := false, 0
	readsEq := func() bool {
		return worlds[0].W.P[0].R.History() == worlds[1].W.P[0].R.History() && worlds[0].W.P[1].R.History() == worlds[1].W.P[1].R.History()
	}
	compare := func(from [2]int, what string) bool {
		c0, c1 := worlds[0].W.Calls[from[0]:], worlds[1].W.Calls[from[1]:]
		n := len(c0)
		if len(c1) < n {
			n = len(c1)
		}
		for i := 0; i < n; i++ {
			a, b := callObs(worlds[0].W, c0[i], sc.Cfg.V == 3), callObs(worlds[1].W, c1[i], sc.Cfg.V == 3)
			if exact {
				// both worlds have consumed the same randomness before and after this step, so every secret either
				// world holds is the same number: the wire output must agree byte for byte (ciphertext, MACs and
				// the MAC keys given up included)
				a += fmt.Sprintf(" wire=%x", sha256.Sum256(bytes.Join(c0[i].Out, []byte{0xff})))
				b += fmt.Sprintf(" wire=%x", sha256.Sum256(bytes.Join(c1[i].Out, []byte{0xff})))
			}
			if a != b && !exact && c0[i].Name == "Receive" && c1[i].Name == "Receive" {
				if t0, _ := typeOf(c0[i].In); t0 == ref.TypeDHCommit {
					if t1, _ := typeOf(c1[i].In); t1 == ref.TypeDHCommit && len(c0[i].Out) > 0 && len(c1[i].Out) > 0 {
						// two D-H Commits crossed: who gives way is decided by comparing hashes of random values, and the
						// worlds no longer share their randomness (the rejected message consumed some): either answer is
						// right, and nothing after it can be compared
						o.Class("crossing-commits-tie-break")
						o.Class(kind)
						o.NonTrivial = true
						return false
					}
				}
			}
			if a != b {
				o.Fail("C06/"+kind, "after a rejected input (%s) %s diverges from the run in which the input never arrived:\n  without: %s\n  with:    %s", kind, what, clip(a), clip(b))
				return false
			}
			if kind != "" && c0[i].Name == "Receive" && c0[i].HasPl {
				delivered[c0[i].Who]++
			}
		}
		if len(c0) != len(c1) {
			o.Fail("C06/"+kind, "after a rejected input (%s) %s makes %d API calls instead of %d", kind, what, len(c1), len(c0))
			return false
		}
		return true
	}
	stateWas := ""
	for i := 0; i <= len(sc.Ops); i++ {
		if i == at {
			s := worlds[1]
			in, k := deriveRejected(s, sc.R)
			if in == nil {
				o.Discard = true
				return o
			}
			rcv := sc.R.W & 1
			before := len(s.W.Q[rcv])
			switch {
			case s.asked[0] || s.asked[1]:
				stateWas = "mid-SMP"
			case s.W.P[rcv].C.IsEncrypted():
				stateWas = "encrypted"
			default:
				stateWas = "not-encrypted"
				for d := 0; d < 2; d++ {
					for _, wr := range s.W.Q[d] {
						if _, _, ok := isAKEWire(wr.Data); ok {
							stateWas = "mid-AKE"
						}
					}
				}
			}
			c := s.W.Receive(rcv, in)
			replies := s.W.Q[rcv][before:]
			s.W.Q[rcv] = s.W.Q[rcv][:before]
			s.W.Calls = s.W.Calls[:len(s.W.Calls)-1]
			rejected := !c.HasPl && len(c.NewSMP(s.W.P[rcv])) == 0 && len(c.NewSec(s.W.P[rcv])) == 0 && len(c.NewSym(s.W.P[rcv])) == 0
			for _, m := range replies {
				if !bytes.HasPrefix(m.Data, []byte("?OTR Error")) {
					rejected = false
				}
			}
			if !rejected {
				o.Discard = true
				o.Class("input-not-rejected")
				return o
			}
			kind = k
		}
		if i == len(sc.Ops) {
			break
		}
		from := [2]int{len(worlds[0].W.Calls), len(worlds[1].W.Calls)}
		op := sc.Ops[i]
		eqBefore := readsEq()
		for _, s := range worlds {
			if op.K == "sess" {
				// refresh without the compound op's own clock ageing (ageing is an explicit op here)
				s.W.Query(op.W & 1)
				s.Exec(SOp{K: "flush"})
			} else {
				s.Exec(op)
			}
		}
		exact = eqBefore && readsEq()
		if exact && i >= at {
			exactOps++
		}
		if !compare(from, fmt.Sprintf("op #%d (%s)", i, op.K)) {
			return o
		}
	}
	// final probe in both worlds
	from := [2]int{len(worlds[0].W.Calls), len(worlds[1].W.Calls)}
	for _, s := range worlds {
		s.Exec(SOp{K: "flush"})
		for d := 0; d < 2; d++ {
			s.Send(d, []byte(fmt.Sprintf("probe from %d", d)))
			s.Exec(SOp{K: "flush"})
		}
	}
	exact = false
	if !compare(from, "the final exchange of texts") {
		return o
	}
	o.Class(kind)
	if exactOps > 0 {
		o.Class("wire-compared-byte-for-byte")
	}
	o.Class("state-" + stateWas)
	o.NonTrivial = stateWas != "not-encrypted" && delivered[0] >= 2 && delivered[1] >= 2
	return o
}

func clip(s string) string {
	if len(s) > 700 {
		return s[:700] + "…"
	}
	return s
}

func init() {
	reg("C06twin", runTwin)
	reg("C06akestates", runTwin)
	reg("C06fresh", runTwin)
	reg("C06firstuse", runTwin)
	reg("C06akelossy", runTwin)
	reg("C06midsmp", runTwin)
}

// TestProp_C06_MidSMP: an SMP run is at each of its points (request delivered, answered, third message delivered) when
// a rejected input of each kind (key-exchange messages replayed, cut short, relabelled, re-addressed; damaged data
// messages) reaches either side; the run must go on and end exactly as it would have.
func TestProp_C06_MidSMP(t *testing.T) {
	si, sn := sim.Shard()
	idx := 0
	for _, v := range []int{3, 2} {
		for init := 0; init < 2; init++ {
			for point := 0; point < 3; point++ {
				ops := []SOp{{K: "pp", W: 0, L: 5}, {K: "smp", W: init, X: 0}, {K: "flush"}}
				if point >= 1 {
					ops = append(ops, SOp{K: "ans", W: 1 - init, X: 0}, SOp{K: "dl", W: 1 - init})
				}
				if point >= 2 {
					ops = append(ops, SOp{K: "dl", W: init})
				}
				at := len(ops)
				ops = append(ops, SOp{K: "ans", W: 1 - init, X: 0}, SOp{K: "flush"}, SOp{K: "pp", W: 1, L: 5}, SOp{K: "smp", W: 1 - init, X: 0}, SOp{K: "flush"}, SOp{K: "ans", W: init, X: 0}, SOp{K: "flush"})
				for rcv := 0; rcv < 2; rcv++ {
					for x := 0; x < 10; x++ {
						for _, src := range []int{2, 5, 8, 11} {
							if !sim.Thorough() && (src == 5 || src == 11) {
								continue
							}
							idx++
							if idx%sn != si {
								continue
							}
							sim.Judge(t, "C06midsmp", &TwinScript{Cfg: SessCfg{V: v, SeedA: 1760, SeedB: 1861, KeyA: 0, KeyB: 3}, Ops: ops, At: at, R: SOp{W: rcv, I: src, X: x, L: 20 + src, F: src}})
						}
					}
				}
			}
		}
	}
	sim.MarkCompleted("C06midsmp", true)
}

// TestProp_C06_AKELossy: the specification lets the side that awaits the Signature message answer a repeated
// D-H Key by sending its Reveal Signature again; that only matters when the first copy was lost. The peer's
// D-H Key travels twice, the Reveal Signature is lost, and a rejected or ignored key-exchange message (a replay
// of the previous exchange, a damaged copy of the current one) reaches either side at each point in between.
// Both worlds must come out the same: encrypted.
func TestProp_C06_AKELossy(t *testing.T) {
	si, sn := sim.Shard()
	idx := 0
	for _, v := range []int{3, 2} {
		for starter := 0; starter < 2; starter++ {
			// an earlier exchange with the roles swapped, so that replays of every message type towards either side exist
			pre := []SOp{{K: "age", W: 0}, {K: "age", W: 1}, {K: "sess", W: 1 - starter}, {K: "pp", W: 0, L: 5}, {K: "age", W: 0}, {K: "age", W: 1}}
			// query; commit to the querier; D-H Key doubled in flight; first copy delivered (Reveal Signature now in flight)
			run := []SOp{{K: "query", W: starter}, {K: "dl", W: starter}, {K: "dl", W: 1 - starter}, {K: "dup", W: starter}, {K: "dl", W: starter}}
			tail := []SOp{{K: "drop", W: 1 - starter}, {K: "flush"}, {K: "pp", W: 0, I: 1, L: 5}}
			for at := len(pre) + 2; at <= len(pre)+len(run); at++ {
				for rcv := 0; rcv < 2; rcv++ {
					for x := 0; x < 8; x++ {
						if !sim.Thorough() && x != 0 && x != 4 && x != 5 && x != 7 {
							continue
						}
						for _, src := range []int{0, 2, 5, 8, 9, 10, 11} {
							idx++
							if idx%sn != si {
								continue
							}
							ops := append(append(append([]SOp{}, pre...), run...), tail...)
							sc := &TwinScript{Cfg: SessCfg{V: v, SeedA: 1740, SeedB: 1841, KeyA: 0, KeyB: 3}, Ops: ops, At: at, R: SOp{W: rcv, I: src, X: x, L: 3 + src, F: src % 5}}
							sim.Judge(t, "C06akelossy", sc)
						}
					}
				}
			}
		}
	}
	sim.MarkCompleted("C06akelossy", true)
}

// TestProp_C06_FirstUse: the rejected input is a damaged copy of the message in flight and reaches the receiver
// before the genuine one, so it is the first thing ever to name its key pair (right after the key exchange, or
// after k rounds of rotations); the conversation then goes on long enough for that pair to be retired and its
// keys given up. Every byte either side emits afterwards must be what it would have been anyway.
func TestProp_C06_FirstUse(t *testing.T) {
	si, sn := sim.Shard()
	idx := 0
	for _, v := range []int{3, 2} {
		for k := 0; k < 4; k++ {
			for dir := 0; dir < 2; dir++ {
				for _, x := range []int{0, 1, 2, 3, 4, 5, 8} { // bitflip, counter, key ids, MAC, truncated, next D-H value
					for _, l := range []int{1, 30, 77} {
						idx++
						if idx%sn != si {
							continue
						}
						var ops []SOp
						for i := 0; i < k; i++ {
							ops = append(ops, SOp{K: "pp", W: i & 1, I: 0, L: 9})
						}
						ops = append(ops, SOp{K: "send", W: dir, L: 10})
						at := len(ops)
						ops = append(ops, SOp{K: "flush"}, SOp{K: "pp", W: 1 - dir, I: 2, L: 9}, SOp{K: "pp", W: dir, I: 2, L: 9}, SOp{K: "send", W: 1 - dir, L: 5}, SOp{K: "send", W: dir, L: 5}, SOp{K: "flush"})
						sc := &TwinScript{Cfg: SessCfg{V: v, SeedA: 1720, SeedB: 1821, KeyA: 0, KeyB: 3, Starter: k & 1}, Ops: ops, At: at, R: SOp{W: 1 - dir, I: 0, X: x, L: l, F: l % 4}}
						sim.Judge(t, "C06firstuse", sc)
					}
				}
			}
		}
	}
	sim.MarkCompleted("C06firstuse", true)
}

func TestProp_C06_Twin(t *testing.T) {
	defer sim.MarkCompleted("C06twin", false)
	kinds := []string{"pp", "pp", "pp", "send", "send", "send", "dl", "dl", "dl", "dl", "flush", "smp", "ans", "xk", "age", "age", "sess", "query", "end"}
	rapid.Check(t, func(rt *rapid.T) {
		sc := &TwinScript{Cfg: genSessCfg(rt)}
		sc.Cfg.FragA, sc.Cfg.FragB = 0, 0
		if rapid.IntRange(0, 3).Draw(rt, "req") == 0 {
			sc.Pol = sim.PolRequire
		}
		n := rapid.IntRange(3, 30).Draw(rt, "nops")
		for i := 0; i < n; i++ {
			sc.Ops = append(sc.Ops, genSOp(rt, kinds, 200))
		}
		sc.At = rapid.IntRange(0, n).Draw(rt, "at")
		sc.R = SOp{W: rapid.IntRange(0, 1).Draw(rt, "rw"), I: rapid.IntRange(0, 30).Draw(rt, "ri"), X: rapid.IntRange(0, 69).Draw(rt, "rx"),
			L: rapid.IntRange(0, 3000).Draw(rt, "rl"), F: rapid.IntRange(0, 255).Draw(rt, "rf")}
		if rapid.IntRange(0, 5).Draw(rt, "querykind") == 0 {
			sc.R.X = 100 + rapid.IntRange(0, 8).Draw(rt, "qform")
			sc.Pol |= sim.PolV2 | sim.PolV3 // both versions allowed: the query may name another one than the one in use
		}
		sim.Judge(rt, "C06twin", sc)
	})
}

// TestProp_C06_AKEStates: every point of a handshake x receiver x kind of rejected key-exchange input
// (derived from the message in flight or from an earlier one), followed by the rest of the handshake and traffic.
// TestProp_C06_Fresh: two conversations that have never talked (no peer instance known yet); at every point of their
// first key exchange either side receives a refused or ignored key-exchange message derived from the traffic so far:
// wrong or foreign instance tags (also: from another instance to another instance of ours), cut short, damaged,
// another version, retyped. The exchange must go on as if nothing had arrived.
func TestProp_C06_Fresh(t *testing.T) {
	si, sn := sim.Shard()
	idx := 0
	for _, v := range []int{3, 2} {
		for starter := 0; starter < 2; starter++ {
			for k := 0; k <= 4; k++ {
				ops := []SOp{{K: "query", W: starter}}
				for i := 0; i < k; i++ {
					ops = append(ops, SOp{K: "dl", W: (starter + i) & 1})
				}
				at := len(ops)
				ops = append(ops, SOp{K: "flush"}, SOp{K: "pp", W: 0, I: 1, L: 5})
				for rcv := 0; rcv < 2; rcv++ {
					for _, xf := range [][3]int{{2, 4, 0}, {2, 2, 0}, {2, 0, 0}, {2, 1, 1}, {2, 0, 2}, {1, 0, 7}, {1, 0, 30}, {0, 3, 9}, {3, 0, 0}, {5, 1, 0}, {5, 2, 0}, {7, 0, 0}, {7, 1, 1}} {
						for _, src := range []int{0, 2} {
							idx++
							if idx%sn != si {
								continue
							}
							sc := &TwinScript{Cfg: SessCfg{V: v, SeedA: 1720, SeedB: 1821, KeyA: 0, KeyB: 3}, Fresh: true, Ops: ops, At: at, R: SOp{W: rcv, I: src, X: xf[0], F: xf[1], L: xf[2]}}
							sim.Judge(t, "C06fresh", sc)
						}
					}
				}
			}
		}
	}
	sim.MarkCompleted("C06fresh", true)
}

func TestProp_C06_AKEStates(t *testing.T) {
	si, sn := sim.Shard()
	idx := 0
	for _, v := range []int{3, 2} {
		for starter := 0; starter < 2; starter++ {
			for kk := 0; kk <= 11; kk++ {
				k, pol := kk%6, 0
				start := SOp{K: "query", W: starter}
				if kk >= 6 {
					// the exchange is started by a Send under the require-encryption policy: a text is queued meanwhile
					pol = sim.PolRequire
					start = SOp{K: "send", W: starter, L: 6}
				}
				ops := []SOp{{K: "end", W: 0}, {K: "flush"}, {K: "end", W: 1}, {K: "age", W: 0}, {K: "age", W: 1}, start}
				for i := 0; i < k; i++ {
					d := starter
					if i%2 == 1 {
						d = 1 - starter
					}
					ops = append(ops, SOp{K: "dl", W: d})
				}
				at := len(ops)
				ops = append(ops, SOp{K: "flush"}, SOp{K: "pp", W: 0, I: 1, L: 5})
				for rcv := 0; rcv < 2; rcv++ {
					for q := 0; q < 9; q++ {
						// an ignored query at this point of the exchange, under a policy that allows both versions
						if kk >= 6 || !sim.Thorough() && q%2 == 1 {
							continue
						}
						idx++
						if idx%sn != si {
							continue
						}
						sim.Judge(t, "C06akestates", &TwinScript{Cfg: SessCfg{V: v, SeedA: 1700, SeedB: 1801, KeyA: 0, KeyB: 3}, Pol: sim.PolV2 | sim.PolV3, Ops: ops, At: at, R: SOp{W: rcv, X: 100 + q}})
					}
					for x := 0; x < 8; x++ {
						for _, src := range []int{0, 2, 5} {
							ls := []int{0, 3, 40, 200}
							if x == 7 {
								ls = []int{0, 1, 2, 3, 4, 5, 6, 7, 8, 9, 10, 11} // field (l/6) x alteration (l%6)
								if !sim.Thorough() {
									ls = []int{0, 2, 6, 8}
								}
							}
							for _, l := range ls {
								if !sim.Thorough() && x != 7 && (l == 3 || src == 5) {
									continue
								}
								if !sim.Thorough() && x == 7 && src == 5 {
									continue
								}
								idx++
								if idx%sn != si {
									continue
								}
								rs := SOp{W: rcv, I: src, X: x, L: l, F: l % 5}
								if x == 7 {
									rs.L, rs.F = l/6, l%6
								}
								sc := &TwinScript{Cfg: SessCfg{V: v, SeedA: 1700, SeedB: 1801, KeyA: 0, KeyB: 3}, Pol: pol, Ops: ops, At: at, R: rs}
								sim.Judge(t, "C06akestates", sc)
							}
						}
					}
				}
			}
		}
	}
	sim.MarkCompleted("C06akestates", true)
}
