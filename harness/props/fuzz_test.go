package props

import (
	"bufio"
	"bytes"
	"testing"

	"github.com/coyim/otr3"
	"github.com/coyim/otr3/sexp"

	"verif/harness/sim"
)

// Native coverage-guided fuzz targets (thorough tier only; Go's fuzzer cannot be seeded, the saved
// crasher under testdata/fuzz is the reproducible unit). The oracle inside the target is the same
// guarded, measured call as in the rapid checks.

func FuzzParsers(f *testing.F) {
	f.Add([]byte("(privkeys (account (name \"n\") (protocol p) (private-key (dsa (p #01#) (q #02#) (g #03#) (y #04#) (x #05#))))))"))
	f.Add([]byte("?OTR|00000100|00000200,00001,00002,abc,"))
	f.Add([]byte("?OTR:AAMDAAAAAQAAAAE="))
	f.Add([]byte{0xff, 0xff, 0xff, 0xff, 0, 0, 0, 1, 5})
	f.Add(sim.PoolKeyBytes(0))
	f.Fuzz(func(t *testing.T, in []byte) {
		if len(in) > 1<<16 {
			return
		}
		for _, fn := range []string{"ExtractInstanceTags", "ExtractMPIs", "ExtractData", "ParsePrivateKey", "ImportKeys", "sexp.Read"} {
			c := &ParserCase{Fn: fn, In: in}
			if fn == "ParsePrivateKey" && len(in) > 2048 {
				continue
			}
			if o := runParser(c); o.Violation != "" {
				t.Fatalf("VIOLATION sig=%s: %s", o.Sig, o.Violation)
			}
		}
		_ = sexp.Read(bufio.NewReader(bytes.NewReader(in)))
	})
}

func FuzzReceive(f *testing.F) {
	// seeds: genuine traffic of a short session
	o := &sim.Outcome{}
	s := newSess(&SessScript{Cfg: SessCfg{V: 3, SeedA: 2100, SeedB: 2201, KeyA: 0, KeyB: 3}}, o)
	s.Handshake(0)
	s.Exec(SOp{K: "pp", W: 0, I: 1, L: 5})
	for _, w := range s.W.Log {
		f.Add(w.Data, uint8(5))
	}
	f.Add([]byte("?OTR,1,1,?OTR|,"), uint8(0))
	f.Add([]byte("?OTRv23?"), uint8(0))
	f.Fuzz(func(t *testing.T, in []byte, state uint8) {
		if len(in) > 1<<16 {
			return
		}
		c := &RecvCase{Cfg: SessCfg{V: 3, SeedA: 2100, SeedB: 2201, KeyA: 0, KeyB: 3}, PolA: 2, State: int(state % 11), Kind: 0, Raw: in}
		if o := runRecv(c); o.Violation != "" {
			t.Fatalf("VIOLATION sig=%s: %s", o.Sig, o.Violation)
		}
	})
}

var _ = otr3.ExtractInstanceTags
