package props

import (
	"bytes"
	"fmt"
	"testing"

	"pgregory.net/rapid"

	"verif/harness/ref"
	"verif/harness/sim"
)

// ---- C05: no data message is ever accepted twice ----

type c05run struct {
	s        *Sess
	o        *sim.Outcome
	tokens   [2]map[string]int // token -> times delivered to receiver r
	replays  int
	farRepl  int
	crossRep int
}

func (r *c05run) after(c *sim.Call, u *Unit) {
	if c == nil || r.o.Violation != "" {
		return
	}
	s, rcv := r.s, c.Who
	if tok := findToken(c.Plain); c.HasPl && tok != "" && !bytes.HasPrefix(c.Plain, []byte("[resent] ")) {
		// (a text re-sent by the library's own resend feature is marked as such and judged under C18)
		if c.EncBef && !c.HasMsgEv(s.W.P[rcv], 13) { // not flagged ReceivedMessageUnencrypted
			r.tokens[rcv][tok]++
			if r.tokens[rcv][tok] > 1 {
				r.o.Fail("C05/text-twice", "%s was handed text %q a second time", s.W.P[rcv].Name, tok)
				return
			}
		}
	}
	if u == nil || !u.IsData() || u.From == rcv {
		return
	}
	if s.hasEffect(c) {
		if u.Effects[rcv] >= 1 {
			kind := "text"
			if !c.HasPl {
				kind = "TLV/side effect"
			}
			r.o.Fail("C05/replayed-accepted", "data message #%d (sender key %d, counter %d) acted on %s a second time (%s; plaintext=%v smp=%v sec=%v keys=%d replies=%d)",
				u.ID, u.Obs.Data.SenderKeyID, u.Obs.Data.Ctr, s.W.P[rcv].Name, kind, c.HasPl, c.NewSMP(s.W.P[rcv]), c.NewSec(s.W.P[rcv]), len(c.NewSym(s.W.P[rcv])), len(c.Out))
			return
		}
		u.Effects[rcv]++
		u.FirstAt[rcv] = s.nDeliv[rcv]
	} else if u.Effects[rcv] >= 1 {
		r.replays++
		if s.nDeliv[rcv]-u.FirstAt[rcv] >= 4 {
			r.farRepl++
		}
		if s.epoch[rcv] > u.Epoch+0 && s.epoch[u.From] > u.Epoch {
			r.crossRep++
		}
	}
}

func runC05(sc *SessScript) *sim.Outcome {
	o := &sim.Outcome{}
	s := newSess(sc, o)
	r := &c05run{s: s, o: o}
	r.tokens[0], r.tokens[1] = map[string]int{}, map[string]int{}
	if !s.Handshake(sc.Cfg.Starter) {
		o.Discard = true
		return o
	}
	for _, op := range sc.Ops {
		if o.Violation != "" {
			return o
		}
		switch op.K {
		case "dl":
			r.after(s.DeliverQ(op.W&1, op.I))
		case "replay":
			// re-deliver a recorded data unit of the peer (all its fragments, in order)
			rcv := op.W & 1
			var cands []*Unit
			for _, u := range s.Units {
				if u.From != rcv && u.IsData() {
					cands = append(cands, u)
				}
			}
			if len(cands) == 0 {
				continue
			}
			// bias: op.X==0 most recent, else anywhere
			var u *Unit
			if op.X == 0 {
				u = cands[len(cands)-1-(op.I%3)%len(cands)]
			} else {
				u = cands[op.I%len(cands)]
			}
			for _, wr := range u.Wires {
				cp := *wr
				cp.Replayed = true
				s.byWire[&cp] = s.byWire[wr]
				c, done := s.DeliverWire(rcv, &cp)
				r.after(c, done)
			}
		case "replayall":
			// the whole recorded history of the peer's data messages, oldest first
			rcv := op.W & 1
			var all []*Unit
			for _, u := range s.Units {
				if u.From != rcv && u.IsData() {
					all = append(all, u)
				}
			}
			if op.X%2 == 1 { // newest first
				for i, j := 0, len(all)-1; i < j; i, j = i+1, j-1 {
					all[i], all[j] = all[j], all[i]
				}
			}
			for _, u := range all {
				for _, wr := range u.Wires {
					cp := *wr
					cp.Replayed = true
					s.byWire[&cp] = s.byWire[wr]
					c, done := s.DeliverWire(rcv, &cp)
					r.after(c, done)
				}
			}
			// error replies provoked by the replays are dropped
			s.W.Q[rcv] = nil
			o.Class("replay-whole-history")
		case "flush":
			for n := 0; n < 100000 && s.W.Pending() > 0 && o.Violation == ""; n++ {
				d := n % 2
				if len(s.W.Q[d]) == 0 {
					d = 1 - d
				}
				r.after(s.DeliverQ(d, 0))
			}
		case "pp":
			for i := 0; i <= op.I%3 && o.Violation == ""; i++ {
				for _, d := range []int{op.W & 1, 1 - op.W&1} {
					s.Send(d, s.Text(d, op.L%200, op.F))
					for k := 0; k < 2; k++ {
						for len(s.W.Q[d]) > 0 {
							r.after(s.DeliverQ(d, 0))
						}
						for len(s.W.Q[1-d]) > 0 {
							r.after(s.DeliverQ(1-d, 0))
						}
					}
				}
			}
		case "rekey":
			// End by one side, drain, new AKE
			s.Exec(SOp{K: "end", W: op.W})
			for n := 0; n < 1000 && s.W.Pending() > 0; n++ {
				d := n % 2
				if len(s.W.Q[d]) == 0 {
					d = 1 - d
				}
				r.after(s.DeliverQ(d, 0))
			}
			s.Exec(SOp{K: "end", W: 1 - op.W})
			s.W.Q[0], s.W.Q[1] = nil, nil
			s.W.AgeClock(0, 3*60e9)
			s.W.AgeClock(1, 3*60e9)
			s.Exec(SOp{K: "query", W: op.W})
			for n := 0; n < 100000 && s.W.Pending() > 0; n++ {
				d := n % 2
				if len(s.W.Q[d]) == 0 {
					d = 1 - d
				}
				r.after(s.DeliverQ(d, 0))
			}
			o.Class("rekey")
		default:
			s.Exec(op)
		}
	}
	if o.Violation != "" {
		return o
	}
	if r.replays > 0 {
		o.Class("replay-of-processed")
	}
	if r.farRepl > 0 {
		o.Class("replay-after>=4-deliveries")
	}
	if r.crossRep > 0 {
		o.Class("replay-cross-session")
	}
	if sc.Cfg.FragA > 0 || sc.Cfg.FragB > 0 {
		o.Class("fragmented")
	}
	o.NonTrivial = r.farRepl > 0 || r.crossRep > 0
	return o
}

func init() { reg("C05replay", runC05) }

func TestProp_C05_Replay(t *testing.T) {
	defer sim.MarkCompleted("C05replay", false)
	kinds := []string{"pp", "pp", "pp", "send", "send", "dl", "dl", "dl", "dup", "dup", "replay", "replay", "replay", "replay", "replayall", "replayall", "rekey", "smp", "ans", "xk", "age", "flush", "fault", "fault"}
	rapid.Check(t, func(rt *rapid.T) {
		sc := &SessScript{Cfg: genSessCfg(rt)}
		n := rapid.IntRange(2, 40).Draw(rt, "nops")
		for i := 0; i < n; i++ {
			op := genSOp(rt, kinds, 300)
			if op.K == "replay" {
				op.I = rapid.IntRange(0, 40).Draw(rt, "ri")
				op.X = rapid.IntRange(0, 1).Draw(rt, "rx")
			}
			if op.K == "fault" {
				// in a running session randomness is read at rotations: the very next reads are the ones that matter
				op.X = op.X % 3
			}
			sc.Ops = append(sc.Ops, op)
		}
		sim.Judge(rt, "C05replay", sc)
	})
}

// ---- C05 (peer part): messages built by the reference, in forms otr3's own Send never produces, delivered twice ----

// RefReplayCase: the reference sends one data message of the given kind, otr3 accepts it; after Dist rounds of further
// traffic (keys rotate) the very same bytes arrive again.
type RefReplayCase struct {
	V    int `json:"v"`
	Kind int `json:"kind"` // 0 text; 1 text flagged ignore-unreadable; 2 text + extra-key record; 3 flagged text + padding; 4 extra-key record only; 5 flagged text + extra-key record; 6 text, then two more whose counters jump by 3*2^61
	Dist int `json:"dist"`
	// Fault: otr3's randomness source fails once while it processes the first delivery (the rotation the message asks
	// for cannot happen): whether or not that delivery counts as accepted, the text may come out at most once in all
	Fault bool `json:"fault,omitempty"`
}

func runC05RefReplay(c *RefReplayCase) *sim.Outcome {
	o := &sim.Outcome{}
	m := newMix(SessCfg{V: c.V, SeedA: 5030, SeedB: 5081, KeyA: 0, KeyB: 3}, 0)
	if !m.Establish(c.Kind & 1) {
		o.Discard = true
		return o
	}
	m.ASend([]byte(token(0, 1)))
	m.Settle(nil, nil)
	text := []byte(token(1, 500) + " said once")
	xk := ref.TLV{Type: ref.TLVExtraKey, Val: append(ref.PutU32(nil, 7), "use"...)}
	var wire []byte
	switch c.Kind % 7 {
	case 0:
		wire = m.R.Send(text)
	case 1:
		wire = m.R.SendOpts(text, ref.DataOpts{Flags: 1})
	case 2:
		wire = m.R.Send(text, xk)
	case 3:
		wire = m.R.SendOpts(text, ref.DataOpts{Flags: 1, TLVs: []ref.TLV{{Type: 0, Val: make([]byte, 9)}}})
	case 4:
		wire = m.R.SendOpts(nil, ref.DataOpts{Flags: 1, TLVs: []ref.TLV{xk}})
		text = nil
	case 5:
		wire = m.R.SendOpts(text, ref.DataOpts{Flags: 1, TLVs: []ref.TLV{xk}})
	}
	if c.Kind%7 == 6 {
		wire = m.R.Send(text)
	}
	if c.Fault {
		m.A.R.FailAt, m.A.R.FailFor, m.A.R.FailMode = m.A.R.Reads(), 1, c.Dist&1
	}
	nSym0 := len(m.A.Sym)
	first := m.AReceive(wire)
	m.A.R.Heal()
	delivered := 0
	if first.HasPl && len(first.Plain) > 0 {
		delivered++
	}
	applied := len(m.A.Sym) - nSym0
	if !c.Fault && (first.Err != nil || (text != nil && !bytes.Equal(first.Plain, text))) {
		return o.Fail("C05/harness-first-delivery", "the first delivery of a genuine message of the reference (kind %d) failed: %v %q", c.Kind, first.Err, first.Plain)
	}
	m.Settle(nil, nil)
	if c.Kind%7 == 6 {
		// the peer's counter need only grow: it may grow in big steps
		for _, ctr := range []uint64{0x6000000000000000, 0xC000000000000000} {
			ctr := ctr
			cj := m.AReceive(m.R.SendOpts([]byte(token(1, 600+int(ctr>>62))), ref.DataOpts{Ctr: &ctr}))
			if cj.Err != nil {
				return o.Fail("C05/harness-first-delivery", "a genuine message with counter %#x was refused: %v", ctr, cj.Err)
			}
		}
		o.Class("counter-jumps")
	}
	for i := 0; i < c.Dist; i++ {
		m.ASend([]byte(token(0, 10+i)))
		m.fromR(m.R.Send([]byte(token(1, 10+i))))
		m.Settle(nil, nil)
	}
	for rep := 0; rep < 2; rep++ {
		nSym, nSMP := len(m.A.Sym), len(m.A.SMP)
		again := m.AReceive(wire)
		if again.HasPl && len(again.Plain) > 0 {
			delivered++
		}
		applied += len(m.A.Sym) - nSym
		if c.Fault {
			if delivered > 1 || applied > 1 {
				return o.Fail("C05/text-twice", "a data message of the reference (kind %d) whose first delivery met a failing randomness source came out %d times in all (records acted on %d times) over the first delivery and %d repetitions", c.Kind, delivered, applied, rep+1)
			}
			m.QtoR = nil
			continue
		}
		if again.HasPl && len(again.Plain) > 0 {
			return o.Fail("C05/text-twice", "a data message of the reference (kind %d: flags/records otr3 itself never combines) was delivered again after %d rounds and Receive returned its text %q once more (err=%v)", c.Kind, c.Dist, again.Plain, again.Err)
		}
		if len(m.A.Sym) != nSym || len(m.A.SMP) != nSMP {
			return o.Fail("C05/tlv-twice", "a data message of the reference (kind %d) delivered again after %d rounds had its records acted on again", c.Kind, c.Dist)
		}
		for _, out := range again.Out {
			if isEncoded(out) {
				return o.Fail("C05/reply-twice", "a replayed data message of the reference (kind %d) was answered with a data message", c.Kind)
			}
		}
		m.QtoR = nil
	}
	// the conversation goes on
	if c.Kind%7 == 6 {
		ctr := uint64(0xC000000000000005)
		m.fromR(m.R.SendOpts([]byte(token(1, 900)), ref.DataOpts{Ctr: &ctr}))
	} else {
		m.fromR(m.R.Send([]byte(token(1, 900))))
	}
	ok := false
	m.Settle(func(cl *sim.Call) { ok = ok || (cl != nil && findToken(cl.Plain) == token(1, 900)) }, nil)
	if !ok {
		return o.Fail("C05/after-replay", "after the replays a fresh genuine message was not delivered")
	}
	o.Class(fmt.Sprintf("kind%d-dist%d-fault%v", c.Kind%7, c.Dist, c.Fault))
	o.NonTrivial = true
	return o
}

func init() { reg("C05refreplay", runC05RefReplay) }

func TestProp_C05_RefReplay(t *testing.T) {
	si, sn := sim.Shard()
	idx := 0
	for _, v := range []int{3, 2} {
		for kind := 0; kind < 7; kind++ {
			for _, dist := range []int{0, 1, 2, 4} {
				for _, fault := range []bool{false, true} {
					if fault && (kind == 6 || dist > 1) {
						continue
					}
					idx++
					if idx%sn == si {
						sim.Judge(t, "C05refreplay", &RefReplayCase{V: v, Kind: kind, Dist: dist, Fault: fault})
					}
				}
			}
		}
	}
	sim.MarkCompleted("C05refreplay", true)
}
