package props

import (
	"bytes"
	"encoding/base64"
	"strings"
	"testing"

	"pgregory.net/rapid"

	"verif/harness/ref"
	"verif/harness/sim"
)

// ---- C03: user text never reaches the wire in readable form when encryption is due ----

// LifeScript is a lifecycle history under arbitrary policy sets.
type LifeScript struct {
	Cfg  SessCfg `json:"cfg"`
	PolA int     `json:"pa"` // complete policy sets (6 bits)
	PolB int     `json:"pb"`
	Ops  []SOp   `json:"ops"`
	// NoKeyA: party A has no long-term key (the application has not loaded or generated one yet): no key exchange
	// with it can complete, and what it owes the user's text does not change
	NoKeyA bool `json:"nokeya,omitempty"`
}

func newLifeSess(sc *LifeScript, o *sim.Outcome) *Sess {
	ss := &SessScript{Cfg: sc.Cfg, PolA: sc.PolA, PolB: sc.PolB}
	ss.Cfg.V = 0
	s := newSess(ss, o)
	if sc.NoKeyA {
		s.W.P[0].C.SetOurKeys(nil)
		o.Class("party-without-long-term-key")
	}
	return s
}

type protTok struct {
	tok, why string
	b64      [3][]byte
}

func b64forms(tok string) (out [3][]byte) {
	// the base64 image of tok at the three alignments, trimmed to the part that
	// does not depend on neighbouring bytes
	for a := 0; a < 3; a++ {
		pad := bytes.Repeat([]byte{'x'}, a)
		e := base64.StdEncoding.EncodeToString(append(pad, tok...))
		start := (a*8 + 5) / 6
		end := ((a + len(tok)) * 8) / 6
		out[a] = []byte(e[start:end])
	}
	return
}

type c03run struct {
	s         *Sess
	o         *sim.Outcome
	prot      []protTok
	finished  [2]bool
	secure    [2]bool // a session was announced and neither End() nor the peer's disconnect has happened since
	reasm     [2]ref.Reassembler
	situation map[string]bool
}

func (r *c03run) scanWire(who int, wire []byte, call string) {
	check := func(hay []byte, where string) {
		for _, p := range r.prot {
			if bytes.Contains(hay, []byte(p.tok)) {
				r.o.Fail("C03/leak-"+p.why, "text %s (sent while %s) is readable %s in output of %s by %s", p.tok, p.why, where, call, r.s.W.P[who].Name)
				return
			}
		}
	}
	check(wire, "verbatim")
	for _, p := range r.prot {
		for a := 0; a < 3; a++ {
			if len(p.b64[a]) >= 10 && bytes.Contains(wire, p.b64[a]) {
				// base64 of the text inside the wire: only a leak if what decodes there is readable,
				// which the decoded scan below decides; outside an OTR envelope it is a leak by itself
				if !bytes.HasPrefix(wire, []byte("?OTR")) {
					r.o.Fail("C03/leak-b64-"+p.why, "text %s (sent while %s) appears base64-encoded in plain output of %s", p.tok, p.why, call)
					return
				}
			}
		}
	}
	body := wire
	if f, ok := ref.ParseFragment(wire); ok {
		check(f.Payload, "inside a fragment payload")
		whole, done := r.reasm[who].Add(f)
		if !done {
			return
		}
		body = whole
		check(body, "across reassembled fragments")
	}
	if raw, ok := ref.Dearmor(body); ok {
		check(raw, "inside the base64 armour")
	}
}

func runC03(sc *LifeScript) *sim.Outcome {
	o := &sim.Outcome{}
	s := newLifeSess(sc, o)
	r := &c03run{s: s, o: o, situation: map[string]bool{}}
	w := s.W
	pol := [2]int{sc.PolA, sc.PolB}
	controls, controlsFound := 0, 0
	prev := w.OnCall
	var curSend *SentText
	w.OnCall = func(c *sim.Call) {
		prev(c)
		p := w.P[c.Who]
		for _, e := range c.NewSec(p) {
			switch e {
			case 0: // GoneInsecure
				if c.Name == "Receive" {
					r.finished[c.Who] = true
				}
				r.secure[c.Who] = false
			case 1, 2: // GoneSecure, StillSecure
				r.finished[c.Who] = false
				r.secure[c.Who] = true
			}
		}
		if c.Name == "End" {
			r.finished[c.Who], r.secure[c.Who] = false, false
		}
		for _, m := range c.Out {
			r.scanWire(c.Who, m, c.Name)
		}
		_ = curSend
	}
	for _, op := range sc.Ops {
		if o.Violation != "" {
			return o
		}
		who := op.W & 1
		switch op.K {
		case "send":
			text := s.Text(who, capLen(op.L, 3, s.frag(who)), op.F%3) // filler kinds without OTR markers / tag lookalikes
			// user text may itself look like protocol traffic
			text = append([]byte([]string{"", "", "", "?OTR", "?OTRv23? ", "?OTR Error: ", "?OTR:AAMD", "?OTR|", "?OTR?"}[op.X%9]), text...)
			tok := findToken(text)
			// encryption is due from the announcement of a session until End() or the peer's disconnect, whatever
			// else happened in between (a failed refresh, a randomness fault): nothing else may take it away
			enc := w.P[who].C.IsEncrypted() || r.secure[who]
			fin := r.finished[who] && !enc
			req := pol[who]&sim.PolRequire != 0 && pol[who]&(sim.PolV2|sim.PolV3) != 0
			otrOn := pol[who]&(sim.PolV2|sim.PolV3) != 0
			why := ""
			switch {
			case !otrOn:
			case enc:
				why = "encrypted"
			case fin:
				why = "finished"
			case req:
				why = "require-encryption"
			}
			if why != "" {
				// registered before the call so the call's own output is scanned
				r.prot = append(r.prot, protTok{tok: tok, why: why, b64: b64forms(tok)})
				r.situation[why] = true
			} else {
				r.situation["plain"] = true
			}
			nSeen := len(s.Seen)
			st := s.Send(who, text)
			if o.Violation != "" {
				return o
			}
			switch why {
			case "":
				controls++
				for _, m := range st.Call.Out {
					if bytes.Contains(m, text) {
						controlsFound++
					}
				}
			case "finished":
				if st.Err == nil || len(st.Call.Out) != 0 {
					return o.Fail("C03/finished-send", "Send after the peer ended the session returned err=%v and %d message(s); it must refuse and emit nothing", st.Err, len(st.Call.Out))
				}
			case "require-encryption":
				for _, m := range st.Call.Out {
					if k := ref.Classify(m); k != ref.KQuery {
						return o.Fail("C03/required-send", "Send under required encryption in plaintext state emitted a message of kind %d instead of only a query", k)
					}
				}
			case "encrypted":
				if st.Err == nil {
					// the text must be inside a data message the observer can decrypt with the session's DH secrets
					found := false
					for _, m := range s.Seen[nSeen:] {
						if m.Data != nil && m.Verified && m.Plain != nil && bytes.Equal(m.Plain.Text, text) {
							found = true
						}
					}
					if !found {
						return o.Fail("C03/not-decipherable", "text sent while encrypted is not the plaintext of a data message under the session keys derived from the parties' DH secrets")
					}
				}
			}
		case "frag":
			w.P[who].C.SetFragmentSize(uint16(op.L))
			s.Cfg.FragA, s.Cfg.FragB = 0, 0
		case "tagged":
			// peer-independent trigger: a whitespace-tagged plaintext arrives
			w.Receive(who, append([]byte("hi there"), append(append([]byte{}, ref.WSBase...), ref.WSV3...)...))
		default:
			s.Exec(op)
		}
	}
	s.Exec(SOp{K: "flush"})
	if o.Violation != "" {
		return o
	}
	// "decipherable only with the session's DH secrets": a counter used twice under one key pair means two
	// messages share a key stream and can be read against each other without any secret
	for i, m := range s.Seen {
		for _, is := range m.Issues {
			if strings.Contains(is, "counter") {
				return o.Fail("C03/keystream-reuse", "message #%d of %s: %s (AES-CTR key stream reused)", i, s.W.P[m.From].Name, is)
			}
		}
	}
	if controls > 0 && controlsFound < controls {
		return o.Fail("C03/harness-control", "harness self-check: %d of %d texts sent in plaintext state were not found on the wire by the scanner", controls-controlsFound, controls)
	}
	if controlsFound > 0 {
		o.Class("control-found")
	}
	n := 0
	for k := range r.situation {
		o.Class("sent-" + k)
		n++
	}
	o.NonTrivial = n >= 2 && (r.situation["finished"] || r.situation["require-encryption"])
	return o
}

func init() { reg("C03leak", runC03); reg("C03policies", runC03) }

var lifeKinds = []string{"send", "send", "send", "send", "send", "dl", "dl", "dl", "dl", "dl", "flush", "flush", "query", "query", "end", "end", "errmsg", "smp", "ans", "xk", "age", "pp", "frag", "tagged", "drop", "sess", "sess", "peerend", "peerend", "fault", "faultsess", "faultsess"}

func genPol(rt *rapid.T, label string) int {
	// bias towards sets that allow at least one version
	p := rapid.IntRange(0, 63).Draw(rt, label)
	if p&3 == 0 && rapid.IntRange(0, 3).Draw(rt, label+"fix") != 0 {
		p |= 1 + rapid.IntRange(0, 2).Draw(rt, label+"v")
	}
	return p
}

func genLife(rt *rapid.T, maxOps int) *LifeScript {
	sc := &LifeScript{Cfg: genSessCfg(rt), PolA: genPol(rt, "polA"), PolB: genPol(rt, "polB")}
	sc.Cfg.V = 3
	n := rapid.IntRange(2, maxOps).Draw(rt, "nops")
	for i := 0; i < n; i++ {
		op := genSOp(rt, lifeKinds, 400)
		if op.K == "frag" {
			op.L = rapid.SampledFrom([]int{0, 40, 60, 100, 300}).Draw(rt, "fs")
		}
		sc.Ops = append(sc.Ops, op)
	}
	return sc
}

func TestProp_C03_Leak(t *testing.T) {
	defer sim.MarkCompleted("C03leak", false)
	rapid.Check(t, func(rt *rapid.T) {
		sim.Judge(rt, "C03leak", genLife(rt, 40))
	})
}

// TestProp_C03_Policies: the full 64x64 product of policy sets with a fixed short lifecycle.
func TestProp_C03_Policies(t *testing.T) {
	si, sn := sim.Shard()
	life := []SOp{{K: "send", W: 0, L: 20}, {K: "flush"}, {K: "send", W: 1, L: 20}, {K: "flush"}, {K: "query", W: 0}, {K: "flush"},
		{K: "send", W: 0, L: 20}, {K: "send", W: 1, L: 20}, {K: "flush"},
		// two in a row from one side with an answer in between (messages overtaking each other exercise the counters)
		{K: "send", W: 1, L: 20}, {K: "send", W: 1, L: 20}, {K: "dl", W: 1}, {K: "send", W: 0, L: 20}, {K: "dl", W: 1}, {K: "send", W: 0, L: 20}, {K: "flush"},
		{K: "end", W: 1}, {K: "flush"}, {K: "send", W: 0, L: 20}, {K: "send", W: 1, L: 20},
		{K: "flush"}, {K: "end", W: 0}, {K: "send", W: 0, L: 20}, {K: "flush"}}
	step := 1
	if !sim.Thorough() {
		step = 5
	}
	idx := 0
	for pa := 0; pa < 64; pa++ {
		for pb := (pa * 3) % step; pb < 64; pb += step {
			idx++
			if idx%sn != si {
				continue
			}
			sc := &LifeScript{Cfg: SessCfg{V: 3, SeedA: 4, SeedB: 7, KeyA: 0, KeyB: 3}, PolA: pa, PolB: pb, Ops: life}
			sim.Judge(t, "C03policies", sc)
		}
	}
	// the same lifecycle with a party that has no long-term key yet: every policy set of that party against two of the peer's
	for pa := 0; pa < 64; pa++ {
		for _, pb := range []int{3, pa | 3, 2 | 4, 1} {
			idx++
			if idx%sn != si {
				continue
			}
			sc := &LifeScript{Cfg: SessCfg{V: 3, SeedA: 4, SeedB: 7, KeyA: 0, KeyB: 3}, PolA: pa, PolB: pb, Ops: life, NoKeyA: true}
			sim.Judge(t, "C03policies", sc)
		}
	}
	sim.MarkCompleted("C03policies", sim.Thorough())
}
