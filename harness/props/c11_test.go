package props

import (
	"bytes"
	"fmt"
	"testing"

	"github.com/coyim/otr3"
	"pgregory.net/rapid"

	"verif/harness/ref"
	"verif/harness/sim"
)

// ---- C11: SMP reports success exactly when the secrets match within one session ----

// SMPRun describes one SMP run and the traffic woven into it.
type SMPRun struct {
	Init    int    `json:"init"`
	SecA    int    `json:"sa"`          // secret class of the initiator
	SecB    int    `json:"sb"`          // secret class of the responder
	Base    int    `json:"base"`        // which base secret both derive from
	Q       string `json:"q,omitempty"` // question
	Traffic []int  `json:"t,omitempty"` // ping-pong rounds before start / before answer / before message 3 is delivered
	Len     int    `json:"len,omitempty"`
	Restart int    `json:"restart,omitempty"` // 1: the initiator starts again before the answer; 2: the responder starts its own run instead of answering
	Abandon bool   `json:"abandon,omitempty"` // before this run: a request is left unanswered, the session is ended by both and a new one keyed
	NewKey  bool   `json:"newkey,omitempty"`  // before this run: the responder re-installs its client (new conversation, new long-term key) and opens a new session
}

// C11Script is a sequence of runs in one session.
type C11Script struct {
	Cfg  SessCfg  `json:"cfg"`
	Runs []SMPRun `json:"runs"`
}

// secretOf builds the secret for a class from a base: the classes are chosen so
// that the pairs (0,0), (1,1)... are equal and mixed classes differ in one
// bit, in length, in a trailing NUL, in case.
func secretOf(base, class, n int) []byte {
	var b []byte
	switch base % 5 {
	case 0:
		b = []byte("correct horse battery staple")
	case 1:
		b = []byte{}
	case 2:
		b = []byte{0x01}
	case 3:
		b = filler(1, 200+n%65000, base) // long binary (up to 64 KB)
	case 4:
		b = []byte("päss\x00wörd\xff\xfe")
	}
	b = append([]byte{}, b...)
	switch class % 9 {
	case 6:
		b = append(b, '\n') // as pasted from a terminal
	case 7:
		b = append(b, '\r', '\n')
	case 8:
		b = append(b, '\r')
	case 0:
	case 1:
		if len(b) > 0 {
			b[len(b)-1] ^= 0x01 // last bit
		} else {
			b = []byte{0}
		}
	case 2:
		b = append(b, 0) // trailing NUL
	case 3:
		if len(b) > 0 {
			b = b[:len(b)-1] // shorter by one
		} else {
			b = []byte(" ")
		}
	case 4:
		if len(b) > 0 {
			b[0] ^= 0x80 // first bit
		} else {
			b = []byte{0x80}
		}
	case 5:
		b = append([]byte{' '}, b...)
	}
	return b
}

func smpFlags(ev []sim.SMPEv) (succ, fail, abort, cheat, errr bool) {
	for _, e := range ev {
		switch e.Ev {
		case otr3.SMPEventSuccess:
			succ = true
		case otr3.SMPEventFailure:
			fail = true
		case otr3.SMPEventAbort:
			abort = true
		case otr3.SMPEventCheated:
			cheat = true
		case otr3.SMPEventError:
			errr = true
		}
	}
	return
}

func runC11(sc *C11Script) *sim.Outcome {
	o := &sim.Outcome{}
	s := newSess(&SessScript{Cfg: sc.Cfg}, o)
	w := s.W
	if !s.Handshake(sc.Cfg.Starter) {
		o.Discard = true
		return o
	}
	rot := false
	traffic := func(n int) {
		for i := 0; i < n; i++ {
			s.Exec(SOp{K: "pp", W: i & 1, I: 0, L: 5})
			rot = true
		}
	}
	for ri, run := range sc.Runs {
		a, b := run.Init&1, 1-run.Init&1
		secA, secB := secretOf(run.Base, run.SecA, run.Len), secretOf(run.Base, run.SecB, run.Len)
		equal := bytes.Equal(secA, secB)
		tr := append(append([]int{}, run.Traffic...), 0, 0, 0)
		traffic(tr[0] % 3)
		if run.Abandon {
			// an SMP request that the user never answers, then the session ends and a new one is keyed
			w.SMPStart(a, "", []byte("never answered"))
			s.Exec(SOp{K: "flush"})
			w.End(a)
			s.Exec(SOp{K: "flush"})
			w.End(b)
			w.Q[0], w.Q[1] = nil, nil
			s.Exec(SOp{K: "sess", W: b})
			if !w.P[0].C.IsEncrypted() || !w.P[1].C.IsEncrypted() {
				o.Discard = true
				return o
			}
			o.Class("unanswered-request-then-new-session")
		}
		if run.NewKey {
			// the secret binds both long-term keys of *this* session: after the peer comes back with another key, the
			// keys that count are the new ones
			ki := (w.P[b].KeyI + 1 + ri) % sim.PoolSize()
			for ki == w.P[a].KeyI || ki == w.P[b].KeyI {
				ki = (ki + 1) % sim.PoolSize()
			}
			np := sim.NewParty(sim.PartyOpts{Name: w.P[b].Name, Seed: sc.Cfg.SeedB*3 + uint64(ri)*2 + 90001, Pol: sc.Cfg.pol(), KeyI: ki})
			w.P[b] = np
			s.nDraw[b] = 0
			if k, err := ref.ParseDSAPrivate(sim.PoolKeyBytes(ki)); err == nil {
				s.Obs.Long[b] = k.PubBytes()
			}
			w.Q[0], w.Q[1] = nil, nil
			w.AgeClock(a, 3*60e9)
			w.Query(b)
			s.Exec(SOp{K: "flush"})
			if !w.P[0].C.IsEncrypted() || !w.P[1].C.IsEncrypted() {
				o.Discard = true
				return o
			}
			o.Class("peer-came-back-with-a-new-key")
		}
		na, nb := len(w.P[a].SMP), len(w.P[b].SMP)
		s.asked = [2]bool{}
		c := w.SMPStart(a, run.Q, secA)
		if c.Err != nil {
			return o.Fail("C11/start-error", "StartAuthenticate failed in an encrypted session: %v", c.Err)
		}
		s.Exec(SOp{K: "flush"})
		if !s.asked[b] {
			return o.Fail("C11/no-ask", "run %d: the responder was not asked for the secret", ri)
		}
		ask := w.P[b].SMP[len(w.P[b].SMP)-1]
		if run.Q != "" && (ask.Ev != otr3.SMPEventAskForAnswer || ask.Question != run.Q) {
			return o.Fail("C11/question", "run %d: question %q arrived as event %v %q", ri, run.Q, ask.Ev, ask.Question)
		}
		switch run.Restart % 3 {
		case 1:
			// the user starts the authentication again (e.g. retyped the secret) while the run is in progress
			s.asked = [2]bool{}
			if c := w.SMPStart(a, run.Q, secA); c.Err != nil {
				return o.Fail("C11/start-error", "second StartAuthenticate failed: %v", c.Err)
			}
			s.Exec(SOp{K: "flush"})
			if !s.asked[b] {
				return o.Fail("C11/restart-lost", "run %d: after the initiator restarted the authentication the responder was not asked again; events %v", ri, w.P[b].SMP[nb:])
			}
			na, nb = len(w.P[a].SMP), len(w.P[b].SMP)
			o.Class("restart-by-initiator")
		case 2:
			// the asked party starts its own authentication instead of answering: roles swap
			s.asked = [2]bool{}
			if c := w.SMPStart(b, run.Q, secB); c.Err != nil {
				return o.Fail("C11/start-error", "StartAuthenticate by the asked party failed: %v", c.Err)
			}
			s.Exec(SOp{K: "flush"})
			if !s.asked[a] {
				return o.Fail("C11/restart-lost", "run %d: the asked party started its own authentication but the other side was not asked; events %v", ri, w.P[a].SMP[na:])
			}
			a, b = b, a
			secA, secB = secB, secA
			na, nb = len(w.P[a].SMP), len(w.P[b].SMP)
			o.Class("restart-by-responder")
		}
		traffic(tr[1] % 3)
		c = w.SMPAnswer(b, secB)
		if c.Err != nil {
			return o.Fail("C11/answer-error", "ProvideAuthenticationSecret failed: %v", c.Err)
		}
		// deliver SMP2, then weave traffic before SMP3 reaches the responder
		if len(w.Q[b]) > 0 {
			for len(w.Q[b]) > 0 {
				s.DeliverQ(b, 0)
			}
		}
		if tr[2]%3 > 0 {
			// messages sent by the responder now travel behind SMP3/SMP4 processing
			s.Send(b, s.Text(b, 10, 0))
			s.Send(a, s.Text(a, 10, 0))
		}
		s.Exec(SOp{K: "flush"})
		sa, fa, aa, ca, ea := smpFlags(w.P[a].SMP[na:])
		sb, fb, ab, cb, eb := smpFlags(w.P[b].SMP[nb:])
		desc := fmt.Sprintf("run %d (initiator %s, secrets %s, question %v): initiator events %v, responder events %v", ri, w.P[a].Name, matchWord(equal), run.Q != "", w.P[a].SMP[na:], w.P[b].SMP[nb:])
		if equal {
			if !sa || !sb {
				return o.Fail("C11/no-success", "equal secrets but no success on both sides; %s", desc)
			}
			if fa || fb || aa || ab || ca || cb || ea || eb {
				return o.Fail("C11/noise-on-success", "equal secrets, yet failure/abort/cheated/error was reported; %s", desc)
			}
			o.Class("equal")
		} else {
			if sa || sb {
				return o.Fail("C11/false-success", "different secrets but success was reported; %s", desc)
			}
			if !fb {
				return o.Fail("C11/mismatch-unreported", "different secrets: the responder (who compares first) did not report failure; %s", desc)
			}
			if !fa && !aa {
				return o.Fail("C11/mismatch-unreported", "different secrets: the initiator saw neither failure nor abort; %s", desc)
			}
			o.Class(fmt.Sprintf("differ-class%d-%d", run.SecA%9, run.SecB%9))
		}
		if run.Q != "" {
			o.Class("question")
		}
	}
	if len(sc.Runs) >= 2 {
		o.Class("back-to-back")
	}
	if sc.Cfg.V == 2 {
		o.Class("v2")
	} else {
		o.Class("v3")
	}
	o.NonTrivial = rot || len(sc.Runs) >= 2
	return o
}

// ---- relay: A <-> (MA | MB) <-> B, two separately keyed sessions, SMP payloads forwarded verbatim ----

type RelayScript struct {
	Cfg  SessCfg `json:"cfg"`
	Init int     `json:"init"`
	Base int     `json:"base"`
	SecA int     `json:"sa"`
	SecB int     `json:"sb"`
	Q    string  `json:"q,omitempty"`
	KeyM int     `json:"km"`
	// SameKey: the relay uses the victims' peers' own long-term keys? impossible (it has no private key);
	// it uses its own key KeyM in both sessions.
}

func runC11Relay(sc *RelayScript) *sim.Outcome {
	o := &sim.Outcome{}
	// two independent mixed worlds: victim V[i] (otr3) talks to relay half M[i] (reference party)
	var mx [2]*Mix
	for i := 0; i < 2; i++ {
		cfg := sc.Cfg
		cfg.SeedA = sc.Cfg.SeedA + uint64(i)*1000
		cfg.SeedB = sc.Cfg.SeedB + uint64(i)*1000 + 1
		cfg.KeyA = []int{sc.Cfg.KeyA, sc.Cfg.KeyB}[i]
		cfg.KeyB = sc.KeyM
		cfg.FragB = 0
		mx[i] = newMix(cfg, 0)
		mx[i].R.SMPPassive = true
		if !mx[i].Establish((sc.Cfg.Starter + i) & 1) {
			o.Discard = true
			return o
		}
	}
	secs := [2][]byte{secretOf(sc.Base, sc.SecA, 0), secretOf(sc.Base, sc.SecB, 0)}
	a, b := sc.Init&1, 1-sc.Init&1
	// relay loop: whatever SMP TLV one half receives is re-sent verbatim by the other half
	fwd := [2]int{}
	pump := func() {
		for round := 0; round < 50; round++ {
			moved := false
			for i := 0; i < 2; i++ {
				mx[i].Settle(nil, nil)
				for ; fwd[i] < len(mx[i].R.TLVsIn); fwd[i]++ {
					t := mx[i].R.TLVsIn[fwd[i]]
					if t.Type >= ref.TLVSMP1 && t.Type <= ref.TLVSMP1Q {
						mx[1-i].fromR(mx[1-i].R.SendOpts(nil, ref.DataOpts{Flags: 1, TLVs: []ref.TLV{t}}))
						moved = true
					}
				}
			}
			if !moved {
				for i := 0; i < 2; i++ {
					if mx[i].asked {
						mx[i].asked = false
						buf, reuse := sim.Lend(secs[i])
						out, err := mx[i].A.C.ProvideAuthenticationSecret(buf)
						reuse()
						mx[i].fromA("ProvideAuthenticationSecret", nil, nil, out, err, mx[i].A.Snap(), true)
						moved = true
					}
				}
			}
			if !moved {
				break
			}
		}
	}
	buf, reuse := sim.Lend(secs[a])
	out, err := mx[a].A.C.StartAuthenticate(sc.Q, buf)
	reuse()
	mx[a].fromA("StartAuthenticate", nil, nil, out, err, mx[a].A.Snap(), true)
	if err != nil {
		return o.Fail("C11/start-error", "StartAuthenticate failed: %v", err)
	}
	pump()
	reached := false
	for i := 0; i < 2; i++ {
		succ, _, _, _, _ := smpFlags(mx[i].A.SMP)
		if succ {
			return o.Fail("C11/relay-success", "SMP relayed between two separately keyed sessions reported success at %s (secrets %s); events %v / %v", []string{"A", "B"}[i], matchWord(bytes.Equal(secs[0], secs[1])), mx[0].A.SMP, mx[1].A.SMP)
		}
		for _, e := range mx[i].A.SMP {
			if e.Ev == otr3.SMPEventFailure || e.Ev == otr3.SMPEventCheated {
				reached = true
			}
		}
	}
	_ = b
	if bytes.Equal(secs[0], secs[1]) {
		o.Class("relay-equal-secrets")
	} else {
		o.Class("relay-different-secrets")
	}
	if reached {
		o.Class("relay-run-reached-comparison")
	}
	o.NonTrivial = reached
	return o
}

func init() { reg("C11session", runC11); reg("C11relay", runC11Relay) }

func genSMPRun(rt *rapid.T) SMPRun {
	r := SMPRun{Init: rapid.IntRange(0, 1).Draw(rt, "init"), Base: rapid.IntRange(0, 4).Draw(rt, "base")}
	r.SecA = rapid.IntRange(0, 8).Draw(rt, "sa")
	if rapid.IntRange(0, 1).Draw(rt, "eq") == 0 {
		r.SecB = r.SecA
	} else {
		r.SecB = rapid.IntRange(0, 8).Draw(rt, "sb")
	}
	r.Q = rapid.SampledFrom([]string{"", "", "what is the word?", "ünïcödé ?", "q\twith\ttabs"}).Draw(rt, "q")
	r.Traffic = []int{rapid.IntRange(0, 2).Draw(rt, "t0"), rapid.IntRange(0, 2).Draw(rt, "t1"), rapid.IntRange(0, 2).Draw(rt, "t2")}
	r.Len = rapid.IntRange(0, 65000).Draw(rt, "len")
	r.Abandon = rapid.IntRange(0, 5).Draw(rt, "abandon") == 0
	r.NewKey = rapid.IntRange(0, 4).Draw(rt, "newkey") == 0
	if rapid.IntRange(0, 2).Draw(rt, "dorestart") == 0 {
		r.Restart = rapid.IntRange(1, 2).Draw(rt, "restart")
	}
	return r
}

func TestProp_C11_Session(t *testing.T) {
	defer sim.MarkCompleted("C11session", false)
	rapid.Check(t, func(rt *rapid.T) {
		sc := &C11Script{Cfg: genSessCfg(rt)}
		n := rapid.IntRange(1, 3).Draw(rt, "nruns")
		for i := 0; i < n; i++ {
			sc.Runs = append(sc.Runs, genSMPRun(rt))
		}
		sim.Judge(rt, "C11session", sc)
	})
}

func TestProp_C11_Relay(t *testing.T) {
	defer sim.MarkCompleted("C11relay", false)
	rapid.Check(t, func(rt *rapid.T) {
		sc := &RelayScript{Cfg: genSessCfg(rt), Init: rapid.IntRange(0, 1).Draw(rt, "init"), Base: rapid.IntRange(0, 4).Draw(rt, "base"),
			SecA: rapid.IntRange(0, 5).Draw(rt, "sa"), KeyM: rapid.IntRange(0, 5).Draw(rt, "km"),
			Q: rapid.SampledFrom([]string{"", "who?"}).Draw(rt, "q")}
		sc.SecB = sc.SecA
		if rapid.IntRange(0, 3).Draw(rt, "differ") == 0 {
			sc.SecB = rapid.IntRange(0, 5).Draw(rt, "sb")
		}
		sc.Cfg.FragA, sc.Cfg.FragB = 0, 0
		sim.Judge(rt, "C11relay", sc)
	})
}
