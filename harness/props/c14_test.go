package props

import (
	"bytes"
	"fmt"
	"testing"

	"github.com/coyim/otr3"
	"pgregory.net/rapid"

	"verif/harness/ref"
	"verif/harness/sim"
)

// ---- C14: fragmentation is lossless, bounded, and reassembled exactly once ----

// FragSendCase: one encrypted Send with a fragment size and a text length.
type FragSendCase struct {
	V    int `json:"v"`
	Size int `json:"size"`
	Len  int `json:"len"`
	F    int `json:"f,omitempty"`
	Rot  int `json:"rot,omitempty"` // ping-pong rounds before (changes tags/keys/message size)
}

func runFragSend(c *FragSendCase) *sim.Outcome {
	o := &sim.Outcome{}
	cfg := SessCfg{V: c.V, SeedA: 1100, SeedB: 1201, KeyA: 0, KeyB: 3}
	s := newSess(&SessScript{Cfg: cfg}, o)
	w := s.W
	if !s.Handshake(0) {
		o.Discard = true
		return o
	}
	for i := 0; i < c.Rot%3; i++ {
		s.Exec(SOp{K: "pp", W: 0, I: 0, L: 4})
	}
	h := minFrag(c.V) - 1 // header + separator
	payload := c.Size - h
	if payload < 1 {
		o.Discard = true
		return o
	}
	w.P[0].C.SetFragmentSize(uint16(c.Size))
	text := s.Text(0, c.Len, c.F)
	// the encoding is about 4/3 of (text + padding to 256 + ~330 bytes); skip cases needing more than 65535 pieces
	enc := (len(text)/256+1)*256*4/3 + 600
	if enc/payload >= 65535 {
		o.Discard = true
		return o
	}
	st := s.Send(0, text)
	if st.Err != nil {
		return o.Fail("C14/send-error", "Send of %d bytes with fragment size %d failed: %v", len(text), c.Size, st.Err)
	}
	pieces := st.Call.Out
	var asm ref.Reassembler
	var whole []byte
	done := false
	for i, p := range pieces {
		if len(p) > c.Size {
			return o.Fail("C14/piece-too-long", "piece %d of %d is %d bytes long, fragment size is %d (text %d bytes, v%d)", i+1, len(pieces), len(p), c.Size, len(text), c.V)
		}
		if len(pieces) == 1 && ref.Classify(p) == ref.KEncoded {
			whole, done = p, true
			break
		}
		f, ok := ref.ParseFragment(p)
		if !ok {
			return o.Fail("C14/bad-fragment", "piece %d of %d does not parse as a fragment: %.60q", i+1, len(pieces), p)
		}
		if f.K != i+1 || f.N != len(pieces) {
			return o.Fail("C14/bad-index", "piece %d of %d is labelled %d of %d", i+1, len(pieces), f.K, f.N)
		}
		if done {
			return o.Fail("C14/extra-piece", "pieces follow a complete message")
		}
		whole, done = asm.Add(f)
	}
	if !done {
		return o.Fail("C14/incomplete", "the %d pieces do not reassemble to a complete message", len(pieces))
	}
	u := s.Units[len(s.Units)-1]
	if u.Obs == nil || u.Obs.Data == nil || !u.Obs.Verified || u.Obs.Plain == nil || !bytes.Equal(u.Obs.Plain.Text, text) {
		return o.Fail("C14/lossy", "the reassembled pieces are not the data message carrying the text (%d pieces, encoded %d bytes)", len(pieces), len(whole))
	}
	// the peer gets the text exactly once, on the last piece
	n := 0
	for i := range pieces {
		c2, _ := s.DeliverQ(0, 0)
		if c2.Err != nil {
			return o.Fail("C14/peer-error", "the peer's Receive failed on piece %d of %d: %v", i+1, len(pieces), c2.Err)
		}
		if c2.HasPl {
			n++
			if i != len(pieces)-1 || !bytes.Equal(c2.Plain, text) {
				return o.Fail("C14/peer-wrong", "the peer returned a text on piece %d of %d (equal to the original: %v)", i+1, len(pieces), bytes.Equal(c2.Plain, text))
			}
		}
	}
	if n != 1 {
		return o.Fail("C14/peer-count", "the peer returned the text %d times", n)
	}
	if len(whole) > 65535 {
		o.Class("encoding>65535")
	}
	if payload <= 8 {
		o.Class("tiny-payload")
	}
	if len(whole)%payload == 0 {
		o.Class("length-multiple-of-payload")
	}
	o.Class(fmt.Sprintf("v%d", c.V))
	o.NonTrivial = len(pieces) >= 3
	return o
}

// ---- receiving side: arrival sequences against the specification's reassembly rules ----

// FragEv is one arrival.
type FragEv struct {
	K string `json:"k"` // next restart wrongtotal dup skip zero over foreign garbage plain data
	A int    `json:"a,omitempty"`
}

// FragRecvCase is a sequence of arrivals.
type FragRecvCase struct {
	Cfg SessCfg  `json:"cfg"`
	N   int      `json:"n"` // pieces per message
	Evs []FragEv `json:"evs"`
}

func runFragRecv(c *FragRecvCase) *sim.Outcome {
	o := &sim.Outcome{}
	polA := 0
	if c.N%3 == 2 {
		polA = sim.PolV2 | sim.PolV3 // the victim's policy allows the other version too; the session still runs the peer's
	}
	m := newMix(c.Cfg, polA)
	if !m.Establish(c.Cfg.Starter) {
		o.Discard = true
		return o
	}
	v3 := c.Cfg.V == 3
	own, peer := m.A.C.GetOurInstanceTag(), m.R.OurTag
	var model ref.Reassembler
	msgNo := 0
	var cur [][]byte // payload pieces of the message currently being sent
	var curText []byte
	var curIsData, curIsErr, curDone bool
	next := 0 // index of the next piece to send (0-based)
	completedThenMore, oddMid := false, false
	completed := 0
	ambiguous := true // model state unknown to be equal: force a restart first
	newMsg := func(kind int) {
		data := kind == 1
		curIsErr = kind == 2
		msgNo++
		n := 1 + (c.N+msgNo)%5
		var whole []byte
		if curIsErr {
			// an error message of the peer's client, in pieces: it is reported to the application, once
			curText = []byte(fmt.Sprintf("?OTR Error: trouble no %s", token(1, msgNo)))
			whole = curText
		} else if data {
			curText = []byte(token(1, msgNo))
			whole = m.R.Send(curText)
		} else {
			// (payloads never contain the fragment separator: real payloads are base64)
			curText = bytes.ReplaceAll([]byte(fmt.Sprintf("plain payload %s %s", token(1, msgNo), filler(0, 20+msgNo%40, msgNo))), []byte(","), []byte("."))
			whole = curText
		}
		curIsData, curDone = data, false
		cur = nil
		sz := (len(whole) + n - 1) / n
		for i := 0; i < len(whole); i += sz {
			e := i + sz
			if e > len(whole) {
				e = len(whole)
			}
			cur = append(cur, whole[i:e])
		}
		next = 0
	}
	errSeen, errWanted := 0, 0
	countErr := func(c2 *sim.Call) *sim.Call {
		for _, e := range c2.NewMsg(m.A) {
			if e.Ev == otr3.MessageEventReceivedMessageGeneralError {
				errSeen++
			}
		}
		return c2
	}
	send := func(k, n int, payload []byte, st, rt uint32) *sim.Call {
		return countErr(m.AReceive(ref.MakeFragment(v3, st, rt, k, n, payload)))
	}
	expect := func(c2 *sim.Call, f ref.Fragment, what string) bool {
		whole, done := model.Add(f)
		nErr := 0
		for _, e := range c2.NewMsg(m.A) {
			if e.Ev == otr3.MessageEventReceivedMessageGeneralError {
				nErr++
			}
		}
		if wantErr := done && curIsErr; (nErr > 0) != wantErr || nErr > 1 {
			o.Fail("C14/processed-twice", "%s: %d error message(s) of the peer were reported to the application (complete per the reassembly rules: %v, the message in pieces is an error message: %v)", what, nErr, done, curIsErr)
			return false
		}
		if done && curIsErr {
			completed++
			errWanted++
			if c2.HasPl && len(c2.Plain) > 0 {
				o.Fail("C14/spurious-delivery", "%s completed an error message and Receive returned text %.40q", what, c2.Plain)
				return false
			}
			o.Class("error-message-in-pieces")
			return true
		}
		if done {
			completed++
			want := whole
			if curIsData {
				want = curText
				if curDone {
					// the same data message completed a second time: it is processed, and refused as a replay
					if c2.HasPl {
						o.Fail("C14/processed-twice", "%s completed the same data message a second time and its text was delivered again", what)
						return false
					}
					return true
				}
				curDone = true
			}
			if !c2.HasPl || !bytes.Equal(c2.Plain, want) {
				o.Fail("C14/not-delivered", "%s completed the message according to the reassembly rules, but Receive returned plaintext=%v %.50q (err=%v)", what, c2.HasPl, c2.Plain, c2.Err)
				return false
			}
			return true
		}
		if c2.HasPl {
			o.Fail("C14/spurious-delivery", "%s does not complete a message, yet Receive returned %.60q", what, c2.Plain)
			return false
		}
		return true
	}
	kindOf := func(a int) int {
		switch {
		case a%3 == 0:
			return 1
		case a%5 == 2:
			return 2
		}
		return 0
	}
	newMsg(0)
	for _, ev := range c.Evs {
		if o.Violation != "" {
			return o
		}
		if errSeen != errWanted {
			return o.Fail("C14/processed-twice", "%d error message(s) of the peer arrived in pieces and were completed, %d were reported to the application (an arrival that completes nothing must not make an earlier message be processed again)", errWanted, errSeen)
		}
		kind := ev.K
		if ambiguous && kind != "plain" && kind != "garbage" && kind != "foreign" && kind != "badtag" && kind != "zero" && kind != "over" {
			kind = "restart"
		}
		midStream := model.K > 0
		switch kind {
		case "next":
			if next >= len(cur) {
				newMsg(kindOf(ev.A))
			}
			f := ref.Fragment{V3: v3, K: next + 1, N: len(cur), Payload: cur[next]}
			c2 := send(f.K, f.N, f.Payload, peer, own)
			if !expect(c2, f, fmt.Sprintf("piece %d of %d", f.K, f.N)) {
				return o
			}
			next++
		case "restart":
			newMsg(kindOf(ev.A))
			f := ref.Fragment{V3: v3, K: 1, N: len(cur), Payload: cur[0]}
			c2 := send(1, f.N, f.Payload, peer, own)
			ambiguous = false
			if !expect(c2, f, "a first piece") {
				return o
			}
			next = 1
			if midStream {
				oddMid = true
			}
		case "wrongtotal":
			if next >= len(cur) || next == 0 {
				continue
			}
			f := ref.Fragment{V3: v3, K: next + 1, N: len(cur) + 1 + ev.A%3, Payload: cur[next]}
			c2 := send(f.K, f.N, f.Payload, peer, own)
			if !expect(c2, f, "a piece with a different total") {
				return o
			}
			// the remaining pieces keep arriving: nothing may complete from them
			oddMid = oddMid || midStream
		case "dup":
			if next == 0 || next > len(cur) {
				continue
			}
			f := ref.Fragment{V3: v3, K: next, N: len(cur), Payload: cur[next-1]}
			c2 := send(f.K, f.N, f.Payload, peer, own)
			if f.K > 1 && f.K < f.N {
				// a repeated middle piece: the protocol document says forget, but ignoring the repetition also yields
				// only completely and correctly reassembled messages, which is all the statement asks; accept both
				if c2.HasPl {
					o.Fail("C14/spurious-delivery", "a repeated middle piece made Receive return %.60q", c2.Plain)
					return o
				}
				ambiguous = true
				model = ref.Reassembler{}
				oddMid = oddMid || midStream
				continue
			}
			if !expect(c2, f, "a repeated piece") {
				return o
			}
			// (after a repeated piece other than the first the stream is forgotten; the remaining pieces keep arriving)
			oddMid = oddMid || midStream
			if !midStream && completed > 0 {
				completedThenMore = true
			}
		case "skip":
			if next+1 >= len(cur) {
				continue
			}
			f := ref.Fragment{V3: v3, K: next + 2, N: len(cur), Payload: cur[next+1]}
			c2 := send(f.K, f.N, f.Payload, peer, own)
			if !expect(c2, f, "a piece out of order") {
				return o
			}
			next += 2
			oddMid = oddMid || midStream
		case "zero", "over":
			k, n := 0, 3
			if kind == "over" {
				k, n = 4+ev.A%5, 3
			}
			if ev.A%4 == 0 {
				n = 0
			}
			c2 := send(k, n, []byte("x"), peer, own)
			if c2.HasPl {
				return o.Fail("C14/spurious-delivery", "a fragment with illegal index %d of %d made Receive return %.60q", k, n, c2.Plain)
			}
			// invalid indices leave the state alone
			oddMid = oddMid || midStream
			if !midStream && completed > 0 {
				completedThenMore = true
			}
		case "otherformat":
			// all pieces but the last arrive; then a piece with the right index in the other version's header format
			// (tag-less under version 3, tagged under version 2) and a payload of its own; then the genuine last piece.
			// Nothing but the genuine message may ever come out.
			if next >= len(cur) || len(cur) < 2 {
				newMsg(0)
				if len(cur) < 2 {
					continue
				}
			}
			for ; next < len(cur)-1; next++ {
				f := ref.Fragment{V3: v3, K: next + 1, N: len(cur), Payload: cur[next]}
				if next == 0 {
					ambiguous = false
				}
				if !expect(send(f.K, f.N, f.Payload, peer, own), f, fmt.Sprintf("piece %d of %d", f.K, f.N)) {
					return o
				}
			}
			k := len(cur)
			if ev.A%3 == 2 {
				k = 1 // a first piece in the other format: must not restart the reassembly with foreign content either
			}
			c2 := countErr(m.AReceive(ref.MakeFragment(!v3, peer, own, k, len(cur), []byte("Zm9yZWlnbiBwaWVjZQ"))))
			if c2.HasPl {
				return o.Fail("C14/spurious-delivery", "a piece in the other version's header format (index %d of %d) joined a reassembly: Receive returned %.60q", k, len(cur), c2.Plain)
			}
			errBefore := errSeen
			c3 := send(len(cur), len(cur), cur[len(cur)-1], peer, own)
			if curIsErr && errSeen == errBefore+1 {
				errWanted++ // (the genuine last piece may or may not complete the genuine message)
			}
			want := curText
			if c3.HasPl && !bytes.Equal(c3.Plain, want) {
				return o.Fail("C14/spurious-delivery", "after a piece in the other header format the genuine last piece made Receive return %.60q, which is not the message that was sent", c3.Plain)
			}
			next = len(cur)
			ambiguous = true
			model = ref.Reassembler{}
			oddMid = true
			o.Class("other-header-format")
		case "badtag":
			// a version 3 fragment with a reserved sender or receiver tag: refused, and the stream in progress is not its business
			if !v3 {
				continue
			}
			st, rt := uint32(1+ev.A%0xff), own
			if ev.A%3 == 2 {
				st, rt = peer, uint32(1+ev.A%0xff)
			}
			cb := send(1+ev.A%2, 2, []byte("reserved"), st, rt)
			if cb.HasPl {
				return o.Fail("C14/spurious-delivery", "a fragment with a reserved instance tag made Receive return %.60q", cb.Plain)
			}
			oddMid = oddMid || midStream
			if !midStream && completed > 0 {
				completedThenMore = true
			}
			o.Class("reserved-tag-fragment")
		case "foreign":
			if !v3 {
				continue
			}
			c2 := send(1+ev.A%2, 2, []byte("foreign"), 0x4242+uint32(ev.A), own)
			if c2.HasPl || len(c2.Out) > 0 {
				return o.Fail("C14/spurious-delivery", "a fragment of another instance was acted on")
			}
			oddMid = oddMid || midStream
			if !midStream && completed > 0 {
				completedThenMore = true
			}
		case "garbage":
			forms := []string{"?OTR,x,y,z,", "?OTR,1,2,a,b,", "?OTR,1,2", "?OTR|,", "?OTR,,,,"}
			if v3 {
				forms = append(forms, "?OTR|zz|yy,1,2,a,", fmt.Sprintf("?OTR|%08x|%08x,1,2", peer, own))
			}
			c2 := countErr(m.AReceive([]byte(forms[ev.A%len(forms)])))
			if c2.HasPl {
				return o.Fail("C14/spurious-delivery", "an unparsable fragment made Receive return %.60q", c2.Plain)
			}
			if !midStream && completed > 0 {
				completedThenMore = true
			}
			ambiguous = true
			model = ref.Reassembler{}
		case "plain":
			t := []byte("a whole message in between " + token(1, 900+msgNo))
			c2 := m.AReceive(t)
			if !c2.HasPl || !bytes.Equal(c2.Plain, t) {
				return o.Fail("C14/whole-message", "a whole plaintext message between fragments was not handed through unchanged")
			}
			ambiguous = true
			model = ref.Reassembler{}
			oddMid = oddMid || midStream
		case "data":
			t := []byte(token(1, 500+msgNo))
			c2 := m.AReceive(m.R.Send(t))
			if !c2.HasPl || !bytes.Equal(c2.Plain, t) {
				return o.Fail("C14/whole-message", "a whole data message between fragments was not delivered (err=%v)", c2.Err)
			}
			ambiguous = true
			model = ref.Reassembler{}
			oddMid = oddMid || midStream
		}
		m.QtoR = nil
	}
	if errSeen != errWanted && o.Violation == "" {
		return o.Fail("C14/processed-twice", "%d error message(s) of the peer arrived in pieces and were completed, %d were reported to the application", errWanted, errSeen)
	}
	if completed > 0 {
		o.Class("completed")
	}
	if completedThenMore {
		o.Class("fragment-after-completion")
	}
	if oddMid {
		o.Class("out-of-order-mid-stream")
	}
	o.Class(fmt.Sprintf("v%d", c.Cfg.V))
	o.NonTrivial = completedThenMore || oddMid
	return o
}

func init() { reg("C14send", runFragSend); reg("C14sizes", runFragSend); reg("C14recv", runFragRecv) }

func TestProp_C14_Send(t *testing.T) {
	defer sim.MarkCompleted("C14send", false)
	rapid.Check(t, func(rt *rapid.T) {
		v := rapid.SampledFrom([]int{2, 3}).Draw(rt, "v")
		c := &FragSendCase{V: v, F: rapid.IntRange(0, 4).Draw(rt, "f"), Rot: rapid.IntRange(0, 2).Draw(rt, "rot")}
		m := minFrag(v)
		switch rapid.IntRange(0, 5).Draw(rt, "sizeclass") {
		case 0:
			c.Size = m + rapid.IntRange(0, 8).Draw(rt, "size")
		case 1:
			c.Size = rapid.SampledFrom([]int{63, 64, 65, 127, 128, 129, 255, 256, 257, 511, 512, 513, 1023, 1024, 4095, 4096, 16383, 16384, 32767, 32768, 65534, 65535}).Draw(rt, "size")
		case 2:
			c.Size = rapid.IntRange(m, 300).Draw(rt, "size")
		case 3:
			c.Size = rapid.IntRange(300, 5000).Draw(rt, "size")
		default:
			c.Size = rapid.IntRange(m, 65535).Draw(rt, "size")
		}
		switch rapid.IntRange(0, 4).Draw(rt, "lenclass") {
		case 0:
			c.Len = rapid.IntRange(0, 300).Draw(rt, "len")
		case 1:
			c.Len = rapid.IntRange(300, 5000).Draw(rt, "len")
		case 2:
			c.Len = rapid.IntRange(5000, 48000).Draw(rt, "len")
		case 3:
			c.Len = rapid.IntRange(48000, 52000).Draw(rt, "len") // encodings around 65535 bytes
		default:
			c.Len = rapid.IntRange(52000, 100000).Draw(rt, "len")
		}
		// keep the piece count (and the run time) bounded for tiny payloads
		if payload := c.Size - m + 1; payload < 40 && c.Len > payload*600 {
			c.Len = payload * 600
		}
		sim.Judge(rt, "C14send", c)
	})
}

// TestProp_C14_Sizes: fragment sizes H+1..H+64 x length classes (every residue of the encoding length modulo the payload size).
func TestProp_C14_Sizes(t *testing.T) {
	si, sn := sim.Shard()
	idx := 0
	lens := []int{0, 100, 250, 251, 252, 253, 700}
	if sim.Thorough() {
		lens = append(lens, 1, 2, 3, 254, 255, 256, 1500, 3000)
	}
	for _, v := range []int{3, 2} {
		for d := 0; d < 64; d++ {
			for _, l := range lens {
				idx++
				if idx%sn != si {
					continue
				}
				sim.Judge(t, "C14sizes", &FragSendCase{V: v, Size: minFrag(v) + d, Len: l})
			}
		}
	}
	sim.MarkCompleted("C14sizes", true)
}

func TestProp_C14_Recv(t *testing.T) {
	defer sim.MarkCompleted("C14recv", false)
	kinds := []string{"next", "next", "next", "next", "next", "next", "restart", "wrongtotal", "dup", "skip", "zero", "over", "foreign", "badtag", "badtag", "otherformat", "otherformat", "garbage", "plain", "data"}
	rapid.Check(t, func(rt *rapid.T) {
		c := &FragRecvCase{Cfg: genSessCfg(rt), N: rapid.IntRange(0, 4).Draw(rt, "n")}
		c.Cfg.FragA, c.Cfg.FragB = 0, 0
		n := rapid.IntRange(1, 30).Draw(rt, "nev")
		for i := 0; i < n; i++ {
			c.Evs = append(c.Evs, FragEv{K: rapid.SampledFrom(kinds).Draw(rt, "k"), A: rapid.IntRange(0, 11).Draw(rt, "a")})
		}
		sim.Judge(rt, "C14recv", c)
	})
}

// ---- C14 (no peer instance known yet): pieces of two peer instances interleaved at the start of a conversation ----

// UnboundCase: a fresh version 3 conversation receives the pieces of two messages, one from each of two instances
// of the peer, in the given order (0..n-1 are X's pieces, n..2n-1 are Y's).
type UnboundCase struct {
	N     int   `json:"n"`
	Order []int `json:"order"`
}

func runFragUnbound(c *UnboundCase) *sim.Outcome {
	o := &sim.Outcome{}
	a := sim.NewParty(sim.PartyOpts{Name: "A", Seed: 1444, Pol: sim.PolV3, KeyI: 0})
	own := a.C.GetOurInstanceTag()
	msgs := [2][]byte{[]byte("from the first instance: " + token(1, 1) + " xxxxxxxxxxxx"), []byte("from the second one: " + token(1, 2) + " yyyyyyyyyyyyyyyy")}
	tags := [2]uint32{0x1111aaaa, 0x2222bbbb}
	var pieces [][]byte
	for i := 0; i < 2; i++ {
		sz := (len(msgs[i]) + c.N - 1) / c.N
		for k := 0; k < c.N; k++ {
			e := (k + 1) * sz
			if e > len(msgs[i]) {
				e = len(msgs[i])
			}
			pieces = append(pieces, ref.MakeFragment(true, tags[i], own*uint32(k&1), k+1, c.N, msgs[i][k*sz:e]))
		}
	}
	delivered := 0
	for _, idx := range c.Order {
		plain, _, _ := a.C.Receive(pieces[idx%len(pieces)])
		if plain == nil {
			continue
		}
		delivered++
		if !bytes.Equal(plain, msgs[0]) && !bytes.Equal(plain, msgs[1]) {
			return o.Fail("C14/spurious-delivery", "pieces of two peer instances arrived in the order %v; Receive returned %.70q, which neither of them sent", c.Order, plain)
		}
	}
	if delivered > 0 {
		o.Class("delivered")
	}
	o.NonTrivial = true
	return o
}

func init() { reg("C14unbound", runFragUnbound) }

// TestProp_C14_Unbound: every interleaving that keeps each instance's pieces in order (2- and 3-piece messages),
// plus every order with one piece repeated.
func TestProp_C14_Unbound(t *testing.T) {
	si, sn := sim.Shard()
	idx := 0
	for _, n := range []int{2, 3} {
		var rec func(order []int, x, y int)
		rec = func(order []int, x, y int) {
			if x == n && y == n {
				for rep := -1; rep < 2*n; rep++ {
					idx++
					if idx%sn != si {
						continue
					}
					ord := append([]int{}, order...)
					if rep >= 0 {
						ord = append(ord, rep)
					}
					sim.Judge(t, "C14unbound", &UnboundCase{N: n, Order: ord})
				}
				return
			}
			if x < n {
				rec(append(order, x), x+1, y)
			}
			if y < n {
				rec(append(order, n+y), x, y+1)
			}
		}
		rec(nil, 0, 0)
	}
	sim.MarkCompleted("C14unbound", true)
}

// ---- C14: the key exchange itself in pieces ----

// FragAKECase: both conversations have a fragment size set before anything is said; the exchange is started by either
// side's query and every message of it travels in as many pieces as that takes.
type FragAKECase struct {
	V       int `json:"v"`
	FA      int `json:"fa"`
	FB      int `json:"fb"`
	Starter int `json:"starter"`
}

func runFragAKE(c *FragAKECase) *sim.Outcome {
	o := &sim.Outcome{}
	cfg := SessCfg{V: c.V, SeedA: 1480, SeedB: 1581, KeyA: 0, KeyB: 3, FragA: c.FA, FragB: c.FB, Starter: c.Starter}
	w := cfg.world()
	pieces := 0
	w.OnCall = func(cc *sim.Call) {
		if len(cc.Out) > 1 {
			pieces += len(cc.Out)
		}
		for _, m := range cc.Out {
			if f := cfg.fragOf(cc.Who); f > 0 && len(m) > f && len(cc.Out) > 1 {
				o.Fail("C14/piece-too-long", "a piece of %d bytes although the fragment size is %d", len(m), f)
			}
		}
	}
	if !w.Handshake(c.Starter) {
		return o.Fail("C14/not-delivered", "with fragment sizes %d/%d the key exchange (started by %d, version %d) did not complete: its messages, cut into pieces, were not reassembled and processed (A encrypted=%v, B encrypted=%v)", c.FA, c.FB, c.Starter, c.V, w.P[0].C.IsEncrypted(), w.P[1].C.IsEncrypted())
	}
	for d := 0; d < 2 && o.Violation == ""; d++ {
		t := []byte(token(d, 1) + " after a key exchange in pieces")
		w.Send(d, t)
		got := 0
		for _, cc := range w.Flush(5000) {
			if cc.Who == 1-d && cc.HasPl && bytes.Equal(cc.Plain, t) {
				got++
			}
		}
		if got != 1 {
			return o.Fail("C14/not-delivered", "after a fragmented key exchange a text from %s was delivered %d times", w.P[d].Name, got)
		}
	}
	if pieces > 0 {
		o.Class("handshake-in-pieces")
	}
	o.NonTrivial = pieces > 0
	return o
}

func init() { reg("C14fragake", runFragAKE) }

func TestProp_C14_FragAKE(t *testing.T) {
	si, sn := sim.Shard()
	idx := 0
	for _, v := range []int{3, 2} {
		lo := minFrag(v)
		for _, fa := range []int{0, lo, lo + 1, lo + 7, 64, 100, 200, 339, 340, 341, 500} {
			for _, fb := range []int{0, lo, lo + 3, 80, 250, 700} {
				for starter := 0; starter < 2; starter++ {
					idx++
					if idx%sn == si {
						sim.Judge(t, "C14fragake", &FragAKECase{V: v, FA: fa, FB: fb, Starter: starter})
					}
				}
			}
		}
	}
	sim.MarkCompleted("C14fragake", true)
}
