package props

import (
	"bytes"
	"fmt"

	"github.com/coyim/otr3"

	"testing"
	"verif/harness/ref"

	"verif/harness/sim"
)

// ---- randomness faults inside a key exchange, enumerated (C03, C18) ----
//
// A lifecycle in which one read of one party's randomness source fails at position k of the key exchange that
// follows: for every k, either party, either starter, error or short read, both versions, from each pre-state
// (no session yet, a session to refresh, a session the peer has ended). Afterwards both users send; the parties
// re-key and send again. The scripts are ordinary LifeScripts, judged by the runners of C03 and C18.
func faultLives(thorough bool) []*LifeScript {
	var out []*LifeScript
	pols := []int{sim.PolV3, sim.PolV2, sim.PolV2 | sim.PolV3 | sim.PolErrStart}
	for pi, pol := range pols {
		for pre := 0; pre < 3; pre++ {
			for who := 0; who < 2; who++ {
				for starter := 0; starter < 2; starter++ {
					for k := 0; k < 14; k++ {
						for mode := 0; mode < 2; mode++ {
							if !thorough && (mode == 1 && k%3 != 0 || pi == 2 && (k+who+starter)%2 != 0) {
								continue
							}
							var ops []SOp
							switch pre {
							case 1:
								ops = append(ops, SOp{K: "sess", W: starter}, SOp{K: "pp", W: 0, L: 9})
							case 2:
								ops = append(ops, SOp{K: "sess", W: 1 - starter}, SOp{K: "pp", W: 1, L: 9}, SOp{K: "peerend", W: who}, SOp{K: "flush"})
							}
							ops = append(ops,
								SOp{K: "faultsess", W: who, X: k, I: mode | starter<<1},
								SOp{K: "send", W: 0, L: 12}, SOp{K: "send", W: 1, L: 12}, SOp{K: "flush"},
								SOp{K: "errmsg", W: who}, SOp{K: "flush"},
								SOp{K: "sess", W: who}, SOp{K: "send", W: 0, L: 12}, SOp{K: "send", W: 1, L: 12}, SOp{K: "flush"},
								SOp{K: "end", W: who}, SOp{K: "flush"}, SOp{K: "send", W: 1 - who, L: 12}, SOp{K: "flush"})
							out = append(out, &LifeScript{Cfg: SessCfg{V: 3, SeedA: 40, SeedB: 71, KeyA: 0, KeyB: 3}, PolA: pol, PolB: pol, Ops: ops})
						}
					}
				}
			}
		}
	}
	return out
}

func init() { reg("C03faults", runC03); reg("C18faults", runC18) }

func TestProp_C03_Faults(t *testing.T) {
	si, sn := sim.Shard()
	for i, sc := range faultLives(sim.Thorough()) {
		if i%sn == si {
			sim.Judge(t, "C03faults", sc)
		}
	}
	sim.MarkCompleted("C03faults", true)
}

func TestProp_C18_Faults(t *testing.T) {
	si, sn := sim.Shard()
	for i, sc := range faultLives(sim.Thorough()) {
		if i%sn == si {
			sim.Judge(t, "C18faults", sc)
		}
	}
	sim.MarkCompleted("C18faults", true)
}

// ---- closing a conversation the peer has ended, with complaints of the peer at every point (C18, C08) ----
//
// "[resent]" traffic depends on three things that are far apart in a history: the last text, an "?OTR Error"
// from the peer, and the next completed key exchange. The patterns put the complaint at each point of
// encrypted -> peer ends -> local End() -> new session -> refresh, for either party.
func endedLives() []*LifeScript {
	var out []*LifeScript
	for _, pol := range []int{sim.PolV3, sim.PolV2, sim.PolV2 | sim.PolV3 | sim.PolErrStart, sim.PolV3 | sim.PolRequire} {
		for who := 0; who < 2; who++ {
			for at := 0; at < 5; at++ {
				for _, localEnd := range []bool{true, false} {
					e := SOp{K: "errmsg", W: 1 - who} // the peer of `who` complains
					ops := []SOp{{K: "sess", W: who}, {K: "pp", W: who, L: 7}, {K: "send", W: who, L: 11}, {K: "flush"}}
					if at == 0 {
						ops = append(ops, e, SOp{K: "flush"})
					}
					ops = append(ops, SOp{K: "peerend", W: who}, SOp{K: "flush"})
					if at == 1 {
						ops = append(ops, e, SOp{K: "flush"})
					}
					if localEnd {
						ops = append(ops, SOp{K: "end", W: who}, SOp{K: "flush"})
					}
					if at == 2 {
						ops = append(ops, e, SOp{K: "flush"})
					}
					ops = append(ops, SOp{K: "sess", W: 1 - who})
					if at == 3 {
						ops = append(ops, e, SOp{K: "flush"})
					}
					ops = append(ops, SOp{K: "sess", W: who})
					if at == 4 {
						ops = append(ops, e, SOp{K: "flush"}, SOp{K: "sess", W: who})
					}
					ops = append(ops, SOp{K: "send", W: 0, L: 9}, SOp{K: "send", W: 1, L: 9}, SOp{K: "flush"})
					out = append(out, &LifeScript{Cfg: SessCfg{V: 3, SeedA: 42, SeedB: 73, KeyA: 0, KeyB: 3}, PolA: pol, PolB: pol, Ops: ops})
				}
			}
		}
	}
	return out
}

// pendingEndLives: the user calls End() while a key exchange is pending at each of its points, then the rest of
// the exchange arrives; afterwards text goes out by the plaintext policy, or a new exchange is started.
func pendingEndLives() []*LifeScript {
	var out []*LifeScript
	for _, pol := range []int{sim.PolV3, sim.PolV2, sim.PolV3 | sim.PolRequire} {
		for starter := 0; starter < 2; starter++ {
			for who := 0; who < 2; who++ {
				for k := 0; k <= 4; k++ {
					ops := []SOp{{K: "query", W: starter}}
					for i := 0; i < k; i++ {
						ops = append(ops, SOp{K: "dl", W: (starter + i) & 1})
					}
					ops = append(ops, SOp{K: "end", W: who}, SOp{K: "flush"}, SOp{K: "send", W: who, L: 8}, SOp{K: "send", W: 1 - who, L: 8}, SOp{K: "flush"},
						SOp{K: "sess", W: who}, SOp{K: "send", W: who, L: 8}, SOp{K: "flush"})
					out = append(out, &LifeScript{Cfg: SessCfg{V: 3, SeedA: 46, SeedB: 77, KeyA: 0, KeyB: 3}, PolA: pol, PolB: pol, Ops: ops})
				}
			}
		}
	}
	return out
}

func init() { reg("C18ended", runC18) }

func TestProp_C18_Ended(t *testing.T) {
	si, sn := sim.Shard()
	for i, sc := range append(endedLives(), pendingEndLives()...) {
		if i%sn == si {
			sim.Judge(t, "C18ended", sc)
		}
	}
	sim.MarkCompleted("C18ended", true)
}

// ---- texts waiting for encryption, and time passing before the session starts (C18, C03) ----
func queuedLives() []*LifeScript {
	var out []*LifeScript
	for _, pol := range []int{sim.PolV3 | sim.PolRequire, sim.PolV2 | sim.PolRequire, sim.PolV2 | sim.PolV3 | sim.PolRequire | sim.PolErrStart} {
		for who := 0; who < 2; who++ {
			for _, k := range []int{1, 2, 3, 6, 9} {
				for wait := 0; wait < 5; wait++ {
					if k > 3 && wait%2 == 1 {
						continue
					}
					for afterEnd := 0; afterEnd < 2; afterEnd++ {
						var ops []SOp
						if afterEnd == 1 {
							// a first session comes and goes before the texts are typed
							ops = append(ops, SOp{K: "sess", W: 1 - who}, SOp{K: "pp", W: who, L: 5}, SOp{K: "end", W: who}, SOp{K: "flush"}, SOp{K: "end", W: 1 - who}, SOp{K: "flush"})
						}
						for i := 0; i < k; i++ {
							ops = append(ops, SOp{K: "send", W: who, L: 9 + i})
						}
						// the peer is slow to answer: the query sits in flight while time passes on one side or both
						switch wait {
						case 1:
							ops = append(ops, SOp{K: "age", W: who})
						case 2:
							ops = append(ops, SOp{K: "age", W: 1 - who})
						case 3:
							ops = append(ops, SOp{K: "age", W: who}, SOp{K: "age", W: 1 - who}, SOp{K: "age", W: who})
						case 4:
							ops = append(ops, SOp{K: "dl", W: who}, SOp{K: "age", W: who}, SOp{K: "dl", W: 1 - who}, SOp{K: "age", W: 1 - who})
						}
						ops = append(ops, SOp{K: "flush"}, SOp{K: "send", W: 1 - who, L: 6}, SOp{K: "send", W: who, L: 6}, SOp{K: "flush"})
						out = append(out, &LifeScript{Cfg: SessCfg{V: 3, SeedA: 44, SeedB: 75, KeyA: 0, KeyB: 3}, PolA: pol, PolB: pol &^ sim.PolRequire, Ops: ops})
					}
				}
			}
		}
	}
	return out
}

func init() { reg("C18queued", runC18); reg("C03queued", runC03) }

func TestProp_C18_Queued(t *testing.T) {
	si, sn := sim.Shard()
	for i, sc := range queuedLives() {
		if i%sn == si {
			sim.Judge(t, "C18queued", sc)
		}
	}
	sim.MarkCompleted("C18queued", true)
}

func TestProp_C03_Queued(t *testing.T) {
	si, sn := sim.Shard()
	for i, sc := range queuedLives() {
		if i%sn == si {
			sim.Judge(t, "C03queued", sc)
		}
	}
	sim.MarkCompleted("C03queued", true)
}

// ---- the peer ends the session, in every way an honest or sloppy client may write that down (C03, C18) ----

// PeerEndCase: otr3 talks to the reference, which ends the session with a disconnect message whose plaintext area is
// written in the given way; afterwards Send must refuse the user's text and emit nothing until End() is called (C03),
// the lifecycle events are those of one session ending (C18), and no D-H secret of the session is left (C08).
type PeerEndCase struct {
	V     int  `json:"v"`
	Tail  int  `json:"tail"`
	Pre   int  `json:"pre"`             // rounds of traffic before
	Val   int  `json:"val,omitempty"`   // length of the value the disconnect record carries (the specification fixes none)
	Words bool `json:"words,omitempty"` // user text travels in the same message
	Pad   int  `json:"pad,omitempty"`   // > 0: a padding record of Pad-1 bytes comes first
}

func runPeerEndFor(prop string) func(c *PeerEndCase) *sim.Outcome {
	return func(c *PeerEndCase) *sim.Outcome { return runPeerEnd(c, prop) }
}

func runPeerEnd(c *PeerEndCase, prop string) *sim.Outcome {
	o := &sim.Outcome{}
	m := newMix(SessCfg{V: c.V, SeedA: 1030, SeedB: 1081, KeyA: 0, KeyB: 3}, 0)
	if !m.Establish(c.Pre & 1) {
		o.Discard = true
		return o
	}
	for i := 0; i < c.Pre; i++ {
		m.ASend([]byte(token(0, i+1)))
		m.fromR(m.R.Send([]byte(token(1, i+1))))
		m.Settle(nil, nil)
	}
	// text part (empty unless there are last words), NUL, then the record area
	var raw []byte
	words := token(1, 77) + " goodbye"
	if c.Words {
		raw = append(raw, words...)
	}
	raw = append(raw, 0)
	if c.Pad > 0 {
		raw = append(raw, 0, 0, 0, byte(c.Pad-1))
		raw = append(raw, make([]byte, c.Pad-1)...)
	}
	raw = append(raw, 0, 1, 0, byte(c.Val)) // type 1 (disconnected), length
	raw = append(raw, []byte("bye!")[:c.Val]...)
	tails := [][]byte{
		nil,                                  // exactly the record
		{0, 0, 0, 3, 0, 0, 0},                // followed by a padding record
		{0},                                  // a stray byte
		{0, 0, 0},                            // three stray bytes (shorter than a record header)
		{0, 0, 0, 9, 1, 2},                   // a padding record cut short
		{0x99, 0x99, 0, 2, 7, 7, 0, 0, 0, 0}, // an unknown record and an empty padding record
	}
	raw = append(raw, tails[c.Tail%len(tails)]...)
	nSec := len(m.A.Sec)
	flags := byte(1)
	if c.Words {
		flags = 0
	}
	m.fromR(m.R.SendOpts(nil, ref.DataOpts{Flags: flags, RawPlain: raw}))
	m.R.Encrypted = false
	var got []byte
	var rerr error
	m.Settle(func(cl *sim.Call) {
		if cl != nil && cl.HasPl {
			got = cl.Plain
		}
		if cl != nil && cl.Err != nil {
			rerr = cl.Err
		}
	}, nil)
	how := fmt.Sprintf("disconnect record with a %d-byte value, followed by %x, last words %v, padding first %v", c.Val, tails[c.Tail%len(tails)], c.Words, c.Pad > 0)
	if prop == "C08" {
		// whatever the conversation says about itself: the peer has ended the session, its secrets have to be gone
		g := sim.Walk(m.A.C)
		for _, d := range m.A.R.Draws {
			if d.N != 40 {
				continue
			}
			if regs := g.FindRegions(d.Data); len(regs) > 0 {
				return o.Fail("C08/secret-after-end", "the peer ended the session (%s): a D-H exponent (draw #%d) is still reachable at %s", how, d.Idx, regs[0].Path)
			}
			if len(d.Alias) > 0 && sim.StillHolds(d.Alias, d.Data) {
				return o.Fail("C08/not-erased", "the peer ended the session (%s): the buffer D-H exponent #%d was drawn into was dropped without being zeroed", how, d.Idx)
			}
		}
	}
	if m.A.C.IsEncrypted() {
		return o.Fail(prop+"/peer-end-missed", "the peer ended the session (%s) and the conversation still reports encrypted", how)
	}
	gone := 0
	for _, e := range m.A.Sec[nSec:] {
		if e == otr3.GoneInsecure {
			gone++
		}
	}
	if gone == 0 {
		return o.Fail(prop+"/peer-end-missed", "the peer ended the session (%s) and no GoneInsecure was raised", how)
	}
	switch prop {
	case "C18":
		if gone != 1 {
			return o.Fail("C18/events", "the peer ended the session (%s): GoneInsecure was raised %d times", how, gone)
		}
		if c.Words && (string(got) != words || rerr != nil) {
			return o.Fail("C18/peer-end-last-words", "the peer's last message (%s) was delivered as %q with error %v", how, got, rerr)
		}
	}
	text := []byte(token(0, 99) + " typed after the peer left")
	before := len(m.QtoR)
	call := m.ASend(text)
	if call.Err == nil || len(m.QtoR) != before {
		return o.Fail(prop+"/finished-send", "Send after the peer ended the session returned err=%v and emitted %d message(s); it must refuse and emit nothing", call.Err, len(m.QtoR)-before)
	}
	if prop == "C18" {
		nSec = len(m.A.Sec)
		m.A.C.End()
		call = m.ASend(text)
		if call.Err != nil || len(m.QtoR) != before+1 || !bytes.Contains(m.QtoR[before], text) {
			return o.Fail("C18/after-end", "after the peer's disconnect and End() a text must go out according to the plaintext policy; Send returned err=%v and emitted %d message(s)", call.Err, len(m.QtoR)-before)
		}
		for _, e := range m.A.Sec[nSec:] {
			return o.Fail("C18/events", "End() after the peer's disconnect raised %v: the session had already ended", e)
		}
	}
	o.Class(fmt.Sprintf("tail-%d", c.Tail%len(tails)))
	if c.Val > 0 {
		o.Class("record-with-value")
	}
	if c.Words {
		o.Class("last-words")
	}
	o.NonTrivial = true
	return o
}

func peerEndCases() []*PeerEndCase {
	var out []*PeerEndCase
	for _, v := range []int{3, 2} {
		for tail := 0; tail < 6; tail++ {
			for pre := 0; pre < 3; pre++ {
				out = append(out, &PeerEndCase{V: v, Tail: tail, Pre: pre})
			}
		}
		for val := 0; val < 4; val++ {
			for _, words := range []bool{false, true} {
				for pad := 0; pad < 3; pad++ {
					for pre := 0; pre < 2; pre++ {
						if val == 0 && !words && pad == 0 {
							continue
						}
						out = append(out, &PeerEndCase{V: v, Tail: (val + pad) % 2, Pre: pre, Val: val, Words: words, Pad: pad})
					}
				}
			}
		}
	}
	return out
}

func peerEndTest(t *testing.T, name string) {
	si, sn := sim.Shard()
	for i, c := range peerEndCases() {
		if i%sn == si {
			sim.Judge(t, name, c)
		}
	}
	sim.MarkCompleted(name, true)
}

func init() {
	reg("C03peerend", runPeerEndFor("C03"))
	reg("C08peerend", runPeerEndFor("C08"))
	reg("C18peerend", runPeerEndFor("C18"))
}

func TestProp_C03_PeerEnds(t *testing.T) { peerEndTest(t, "C03peerend") }
func TestProp_C08_PeerEnds(t *testing.T) { peerEndTest(t, "C08peerend") }
func TestProp_C18_PeerEnds(t *testing.T) { peerEndTest(t, "C18peerend") }
