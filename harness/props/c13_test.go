package props

import (
	"bufio"
	"bytes"
	"fmt"
	"math/big"
	"strings"
	"testing"
	"time"

	"github.com/coyim/otr3"
	"github.com/coyim/otr3/sexp"
	"pgregory.net/rapid"

	"verif/harness/ref"
	"verif/harness/sim"
)

// ---- C13: untrusted input and randomness failure never crash, hang or exhaust memory ----

const watchdog = 15 * time.Second

// ParserCase is one input for one public parsing entry point.
type ParserCase struct {
	Fn string `json:"fn"`
	In []byte `json:"in"`
}

func runParser(c *ParserCase) *sim.Outcome {
	o := &sim.Outcome{}
	sim.Crumb("C13parsers", c)
	in := c.In
	secondField := false
	m := sim.Measure(watchdog, func() {
		switch c.Fn {
		case "ExtractInstanceTags":
			_, _, ok := otr3.ExtractInstanceTags(in)
			secondField = ok
		case "ExtractMPIs":
			_, v, ok := otr3.ExtractMPIs(in)
			secondField = ok && len(v) > 0
		case "ExtractMPI":
			rest, _, ok := otr3.ExtractMPI(in)
			if ok {
				_, _, ok2 := otr3.ExtractData(rest)
				secondField = ok2
			}
		case "ExtractData":
			rest, _, ok := otr3.ExtractData(in)
			if ok {
				_, _, secondField = otr3.ExtractShort(rest)
				otr3.ExtractWord(rest)
				otr3.ExtractLong(rest)
				otr3.ExtractTime(rest)
				otr3.ExtractByte(rest)
				otr3.ExtractFixedData(rest, 20)
			}
		case "ParsePublicKey":
			_, ok, k := otr3.ParsePublicKey(in)
			if ok && k != nil {
				secondField = true
				k.Fingerprint()
				if pk, isDSA := k.(*otr3.DSAPublicKey); isDSA && pk.P != nil && pk.P.BitLen() <= 4096 && pk.Q != nil && pk.Q.BitLen() <= 512 {
					k.Verify(make([]byte, 32), make([]byte, 40))
				}
			}
		case "ParsePrivateKey":
			_, ok, k := otr3.ParsePrivateKey(in)
			if ok && k != nil {
				secondField = true
				k.Serialize()
				k.PublicKey().Fingerprint()
			}
		case "DSAPrivateKey.Import":
			k := &otr3.DSAPrivateKey{}
			secondField = k.Import(in)
		case "ImportKeys":
			acc, err := otr3.ImportKeys(bytes.NewReader(in))
			secondField = err == nil && len(acc) > 0
		case "sexp.Read":
			v := sexp.Read(bufio.NewReader(bytes.NewReader(in)))
			if v != nil {
				_ = v.String()
				secondField = true
			}
		case "sexp.ReadList":
			r := bufio.NewReader(bytes.NewReader(in))
			sexp.ReadList(r)
			sexp.ReadString(r)
			sexp.ReadBigNum(r)
			sexp.ReadSymbol(r)
			sexp.ReadListItem(r)
		}
	})
	if !m.Verdict(o, c.Fn, len(in)) && m.Hung {
		sim.FailHard("C13parsers", o, c)
	}
	o.Class(c.Fn)
	o.NonTrivial = secondField
	return o
}

// key-file grammar pieces
var sexpAtoms = []string{"(", ")", "(", ")", "privkeys", "account", "name", "protocol", "private-key", "dsa", "p", "q", "g", "y", "x",
	"#", "#00#", "#0123456789ABCDEF#", "#zz#", "\"", "\"user@example.org\"", "prpl-jabber", " ", "\n", "\t", "(p #", "(name \"", "))", "((", "#A", "\"abc", "\x00", "\xff"}

func genKeyFile(rt *rapid.T) []byte {
	switch rapid.IntRange(0, 3).Draw(rt, "kfkind") {
	case 0: // valid file, then damaged
		var b bytes.Buffer
		b.WriteString("(privkeys\n")
		n := rapid.IntRange(0, 2).Draw(rt, "naccounts")
		for i := 0; i < n; i++ {
			k, _ := ref.ParseDSAPrivate(sim.PoolKeyBytes(i))
			fmt.Fprintf(&b, " (account\n(name \"%s\")\n(protocol %s)\n(private-key\n (dsa\n  (p #%X#)\n  (q #%X#)\n  (g #%X#)\n  (y #%X#)\n  (x #%X#)\n  )\n )\n )\n",
				rapid.SampledFrom([]string{"a@b.c", "", "x y", "ünï", "a(b", "a\"b"}).Draw(rt, "name"), rapid.SampledFrom([]string{"prpl-jabber", "xmpp", "a b", ""}).Draw(rt, "proto"),
				k.Priv.P, k.Priv.Q, k.Priv.G, k.Priv.Y, k.Priv.X)
		}
		b.WriteString(")\n")
		out := b.Bytes()
		switch rapid.IntRange(0, 4).Draw(rt, "damage") {
		case 0:
		case 1:
			out = out[:rapid.IntRange(0, len(out)).Draw(rt, "cut")]
		case 2:
			i := rapid.IntRange(0, len(out)-1).Draw(rt, "pos")
			out = append(append(append([]byte{}, out[:i]...), rapid.SampledFrom(sexpAtoms).Draw(rt, "ins")...), out[i:]...)
		case 3:
			i := rapid.IntRange(0, len(out)-1).Draw(rt, "pos")
			out = append(append([]byte{}, out[:i]...), out[i+1:]...)
		case 4:
			out = bytes.ReplaceAll(out, []byte(rapid.SampledFrom([]string{"(", ")", "#", "\"", "dsa", "account"}).Draw(rt, "what")), []byte(rapid.SampledFrom([]string{"", " ", "((", "#"}).Draw(rt, "with")))
		}
		return out
	case 1: // token soup
		n := rapid.IntRange(0, 30).Draw(rt, "ntok")
		var b bytes.Buffer
		for i := 0; i < n; i++ {
			b.WriteString(rapid.SampledFrom(sexpAtoms).Draw(rt, "tok"))
			if rapid.Bool().Draw(rt, "sp") {
				b.WriteByte(' ')
			}
		}
		return b.Bytes()
	case 2: // every prefix of a canonical start
		s := "(privkeys (account (name \"n\") (protocol p) (private-key (dsa (p #01#) (q #02#) (g #03#) (y #04#) (x #05#)))))"
		return []byte(s[:rapid.IntRange(0, len(s)).Draw(rt, "cut")])
	}
	return rapid.SliceOfN(rapid.Byte(), 0, 200).Draw(rt, "raw")
}

func genWireBytes(rt *rapid.T) []byte {
	base := sim.PoolKeyBytes(rapid.IntRange(0, 5).Draw(rt, "key"))
	switch rapid.IntRange(0, 5).Draw(rt, "wkind") {
	case 0:
		return rapid.SliceOfN(rapid.Byte(), 0, 64).Draw(rt, "raw")
	case 1: // length/count prefix then little data
		p := rapid.SampledFrom([][]byte{{0, 0, 0, 0}, {0, 0, 0, 1}, {0, 0, 0, 5}, {0x7f, 0xff, 0xff, 0xff}, {0xff, 0xff, 0xff, 0xff}, {0x80, 0, 0, 0}, {0, 1, 0, 0}}).Draw(rt, "prefix")
		return append(append([]byte{}, p...), rapid.SliceOfN(rapid.Byte(), 0, 40).Draw(rt, "tail")...)
	case 2: // a valid key, truncated
		return base[:rapid.IntRange(0, len(base)).Draw(rt, "cut")]
	case 3: // a valid key with one length field replaced
		out := append([]byte{}, base...)
		// MPI length fields sit at offset 2 and after each MPI
		off := 2
		k := rapid.IntRange(0, 4).Draw(rt, "which")
		for i := 0; i < k && off+4 <= len(out); i++ {
			l := int(out[off])<<24 | int(out[off+1])<<16 | int(out[off+2])<<8 | int(out[off+3])
			off += 4 + l
		}
		if off+4 <= len(out) {
			copy(out[off:], rapid.SampledFrom([][]byte{{0, 0, 0, 0}, {0, 0, 0, 1}, {0xff, 0xff, 0xff, 0xff}, {0, 0, 1, 0}, {0, 0, 0, 0x81}}).Draw(rt, "len"))
		}
		return out
	case 4: // type tag variants
		out := append([]byte{}, base...)
		out[0], out[1] = byte(rapid.IntRange(0, 2).Draw(rt, "t0")), byte(rapid.IntRange(0, 2).Draw(rt, "t1"))
		return out
	}
	out := append([]byte{}, base...)
	i := rapid.IntRange(0, len(out)-1).Draw(rt, "pos")
	out[i] ^= byte(1 << uint(rapid.IntRange(0, 7).Draw(rt, "bit")))
	return out
}

func genTagInput(rt *rapid.T) []byte {
	prefix := rapid.SampledFrom([]string{"?OTR:", "?OTR|", "?OTR,", "?OTR", "?OTR:AAMC", "?OTR:AAM", "?OTR|1234|", "?OTR|00000100|00000200,", "?OTR|x|y,00001,00001,", ""}).Draw(rt, "prefix")
	tail := rapid.SampledFrom([]string{"", ".", ",", "AAMDAAAAAQAAAAE=.", "====.", "00001,00001,abc,", "|", "AAMD", "\x00"}).Draw(rt, "tail")
	mid := rapid.StringOfN(rapid.RuneFrom([]rune("ABCDabcd0123+/=,.|?OTR: \x00")), 0, 30, -1).Draw(rt, "mid")
	return []byte(prefix + mid + tail)
}

func TestProp_C13_Parsers(t *testing.T) {
	defer sim.MarkCompleted("C13parsers", false)
	defer sim.ClearCrumb()
	fns := []string{"ExtractInstanceTags", "ExtractMPIs", "ExtractMPI", "ExtractData", "ParsePublicKey", "ParsePrivateKey", "DSAPrivateKey.Import", "ImportKeys", "ImportKeys", "sexp.Read", "sexp.ReadList"}
	rapid.Check(t, func(rt *rapid.T) {
		c := &ParserCase{Fn: rapid.SampledFrom(fns).Draw(rt, "fn")}
		switch c.Fn {
		case "ExtractInstanceTags":
			c.In = genTagInput(rt)
		case "ImportKeys", "sexp.Read", "sexp.ReadList", "DSAPrivateKey.Import":
			c.In = genKeyFile(rt)
		default:
			c.In = genWireBytes(rt)
		}
		sim.Judge(rt, "C13parsers", c)
	})
}

// ---- Receive in every state ----

// RecvCase: bring a conversation into a state, feed it one hostile input, then probe usability.
type RecvCase struct {
	Cfg   SessCfg `json:"cfg"`
	PolA  int     `json:"pa"`
	State int     `json:"state"` // 0 fresh, 1 after sending query, 2 awaiting DH key, 3 awaiting reveal sig, 4 awaiting sig, 5 encrypted, 6 encrypted+rotations, 7 finished, 8 mid fragment stream, 9 SMP pending
	NoKey bool    `json:"nokey,omitempty"`
	Kind  int     `json:"kind"` // how the input is made
	A     int     `json:"a,omitempty"`
	B     int     `json:"b,omitempty"`
	Raw   []byte  `json:"raw,omitempty"`
}

// stateWorld prepares the victim (party 0) in the requested state and returns a pool of genuine messages addressed to it.
func stateWorld(c *RecvCase, o *sim.Outcome) (*Sess, [][]byte) {
	sc := &SessScript{Cfg: c.Cfg, PolA: c.PolA &^ 3, PolB: 0}
	s := newSess(sc, o)
	if c.NoKey {
		s.W.P[0].C.SetOurKeys(nil)
	}
	w := s.W
	var pool [][]byte
	take := func() {
		for _, wr := range w.Q[1] {
			pool = append(pool, wr.Data)
		}
	}
	step := func() bool { // deliver one message in whichever direction has one, B->A first
		if len(w.Q[1]) > 0 {
			take()
			s.DeliverQ(1, 0)
			return true
		}
		if len(w.Q[0]) > 0 {
			s.DeliverQ(0, 0)
			return true
		}
		return false
	}
	switch c.State % 11 {
	case 0:
	case 1:
		w.Query(0)
	case 2: // A sent the commit
		w.Query(1)
		s.DeliverQ(1, 0)
	case 3: // A answered a commit with its D-H key
		w.Query(0)
		s.DeliverQ(0, 0)
		take()
		s.DeliverQ(1, 0)
	case 10: // both sides started at once: A has sent its commit and then meets B's
		w.Query(0)
		w.Query(1)
		s.DeliverQ(0, 0)
		s.DeliverQ(1, 0)
		take()
		s.DeliverQ(1, 0)
		for i := 0; i < c.B%3 && len(w.Q[1]) > 0; i++ {
			take()
			s.DeliverQ(1, 0)
		}
	case 4: // A sent reveal-signature
		w.Query(1)
		s.DeliverQ(1, 0)
		s.DeliverQ(0, 0)
		take()
		s.DeliverQ(1, 0)
	default:
		s.Handshake(c.Cfg.Starter)
		switch c.State % 11 {
		case 6:
			s.Exec(SOp{K: "pp", W: 0, I: 2, L: 10})
		case 7:
			w.End(1)
			for step() {
			}
		case 8:
			w.P[1].C.SetFragmentSize(uint16(minFrag(c.Cfg.V) + 40))
			s.Send(1, s.Text(1, 200, 0))
			take()
			for i := 0; i < 2 && len(w.Q[1]) > 1; i++ {
				s.DeliverQ(1, 0)
			}
		case 9:
			w.SMPStart(1, "q?", []byte("s"))
			take()
			for step() {
			}
		}
	}
	// genuine messages for mutation: whatever B has emitted so far plus one fresh message of B
	if w.P[1].C.IsEncrypted() {
		s.Send(1, s.Text(1, 30, 0))
	}
	take()
	for _, wr := range w.Log {
		if wr.From == 1 {
			pool = append(pool, wr.Data)
		}
	}
	return s, pool
}

func hostileInput(c *RecvCase, pool [][]byte, s *Sess) []byte {
	pick := func() []byte {
		if len(pool) == 0 {
			return []byte("?OTR:AAMDAAAA.")
		}
		return append([]byte{}, pool[c.A%len(pool)]...)
	}
	switch c.Kind % 13 {
	case 0:
		return c.Raw
	case 1: // garbage behind each prefix
		p := []string{"?OTR:", "?OTR|", "?OTR,", "?OTR?", "?OTRv", "?OTR Error:", "?OTR", "?OTR:AAMC", "?OTR:AAIC", "?OTR:AAMK", "?OTR:AAMR", "?OTR:AAMS", "?OTR:AAMD", "?OTR:AAID", "?OTR:AAED", "?OTR:AAEK"}[c.A%16]
		return append([]byte(p), c.Raw...)
	case 2: // truncate a genuine message
		m := pick()
		return m[:c.B%(len(m)+1)]
	case 3: // flip a byte of the armoured text
		m := pick()
		if len(m) > 0 {
			m[c.B%len(m)] ^= byte(1 + c.A%255)
		}
		return m
	case 4, 5: // mutate the decoded bytes: set a 4-byte field to a huge/odd value at any offset
		m := pick()
		raw, ok := ref.Dearmor(m)
		if !ok || len(raw) < 8 {
			return m
		}
		v := [][]byte{{0xff, 0xff, 0xff, 0xff}, {0x7f, 0xff, 0xff, 0xff}, {0, 0, 0, 0}, {0x80, 0, 0, 0}, {0, 0, 0xff, 0xff}}[c.A%5]
		off := c.B % (len(raw) - 3)
		copy(raw[off:], v)
		return ref.Armor(raw)
	case 6: // truncate the decoded bytes
		m := pick()
		raw, ok := ref.Dearmor(m)
		if !ok {
			return m
		}
		return ref.Armor(raw[:c.B%(len(raw)+1)])
	case 7: // fragment syntax games
		forms := []string{"?OTR,1,1,?OTR|,", "?OTR,1,1,?OTR,1,1,x,,", "?OTR,0,0,x,", "?OTR,65535,65535,x,", "?OTR,99999,99999,x,", "?OTR,1,2,", "?OTR,-1,1,x,", "?OTR,1,1,,",
			"?OTR|00000000|00000000,1,1,x,", "?OTR|ffffffff|ffffffff,00001,00001,?OTRv23?,", "?OTR|,", "?OTR|1|2|3,1,1,x,", "?OTR,1,1,?OTR:AAMD.,", "?OTR,1,1,?OTR Error:x,", "?OTR,1,1,\x00,"}
		f := forms[c.A%len(forms)]
		if c.B%3 == 0 && s != nil {
			own := s.W.P[0].C.GetOurInstanceTag()
			f = fmt.Sprintf("?OTR|%08x|%08x,00001,00001,%s,", s.W.P[1].C.GetOurInstanceTag(), own, string(c.Raw))
		}
		if c.B%3 == 1 && s != nil && c.Cfg.V == 3 {
			// prefixes with acceptable tags but missing or misplaced separators, cut at every length around the header size
			own, peer := s.W.P[0].C.GetOurInstanceTag(), s.W.P[1].C.GetOurInstanceTag()
			tagForms := []string{
				fmt.Sprintf("?OTR|%08x|%08x", peer, own), fmt.Sprintf("?OTR|%09x|%08x", peer, own), fmt.Sprintf("?OTR|%08x|%09x", peer, 0),
				fmt.Sprintf("?OTR|%x|%x", peer, own), fmt.Sprintf("?OTR|%08x|%08x|", peer, own), fmt.Sprintf("?OTR|%010x|%08x", peer, 0),
				fmt.Sprintf("?OTR|%08x|%08x,", peer, own), fmt.Sprintf("?OTR|%08x|%08x,00001", peer, own), fmt.Sprintf("?OTR|%08x|%08x00001,00001,x,", peer, own),
			}
			f = tagForms[(c.A/16)%len(tagForms)] + "xxxxxxxx"[:c.A%4]
		}
		return []byte(f)
	case 8: // a first fragment announcing many pieces with a large payload
		return []byte(fmt.Sprintf("?OTR,1,%d,%s,", 1+c.A%65535, strings.Repeat("A", c.B%60000)))
	case 9: // query / whitespace variants
		forms := []string{"?OTR?", "?OTRv?", "?OTRv23?", "?OTR?v2?", "?OTRv99999999999999999999?", "?OTRv", "?OTR?v", "?OTRv2", "x" + string(ref.WSBase), string(ref.WSBase) + "       ", string(ref.WSBase) + string(ref.WSV3) + string(ref.WSV2) + string(ref.WSV1), string(ref.WSBase) + string(ref.WSBase)}
		return []byte(forms[c.A%len(forms)])
	case 10: // base64 edge cases
		forms := []string{"?OTR:.", "?OTR:=.", "?OTR:A.", "?OTR:AA==.", "?OTR:AAM=.", "?OTR:AAMD.", "?OTR:AAMDAA==", "?OTR:AAMD\n.", "?OTR:" + strings.Repeat("A", c.B%5000) + "."}
		return []byte(forms[c.A%len(forms)])
	}
	if c.Kind%13 == 12 {
		// a well-formed key-exchange message of some other exchange (same long-term keys, other randomness), addressed
		// correctly: nothing in it is malformed, it just does not belong here
		rc := c.Cfg
		rc.SeedA, rc.SeedB, rc.SkA, rc.SkB = c.Cfg.SeedA+777770, c.Cfg.SeedB+777770, 0, 0
		rec := newSess(&SessScript{Cfg: rc}, &sim.Outcome{})
		rec.Handshake(c.A & 1)
		var ake [][]byte
		for _, wr := range rec.W.Log {
			if _, raw, ok := isAKEWire(wr.Data); ok && wr.From == 1 {
				raw = append([]byte{}, raw...)
				if len(raw) > 11 && raw[1] == 3 && s != nil {
					bound := s.W.P[0].C.GetTheirInstanceTag()
					st := bound
					if st == 0 {
						// (a conversation that knows no peer instance yet may bind to whoever writes first: it is the
						// genuine peer's instance that writes, so that the probe afterwards talks to the bound instance)
						st = s.W.P[1].C.GetOurInstanceTag()
					} else if c.B%2 == 1 {
						st = 0x5151 + uint32(c.B)
					}
					copy(raw[3:], ref.PutU32(nil, st))
					copy(raw[7:], ref.PutU32(nil, s.W.P[0].C.GetOurInstanceTag()))
				}
				ake = append(ake, ref.Armor(raw))
			}
		}
		if len(ake) == 0 {
			return []byte("?OTR:AAMDAAAA.")
		}
		return ake[(c.A/2)%len(ake)]
	}
	// 11: long garbage
	return bytes.Repeat([]byte{byte(c.A)}, c.B%70000)
}

func runRecv(c *RecvCase) *sim.Outcome {
	o := &sim.Outcome{}
	sim.Crumb("C13receive", c)
	s, pool := stateWorld(c, o)
	in := hostileInput(c, pool, s)
	var call *sim.Call
	m := sim.Measure(watchdog, func() { call = s.W.Receive(0, in) })
	if !m.Verdict(o, "Receive", len(in)) {
		if m.Hung {
			sim.FailHard("C13receive", o, c)
		}
		return o
	}
	o.Class(fmt.Sprintf("state%d", c.State%11))
	o.Class(fmt.Sprintf("kind%d", c.Kind%13))
	if k := ref.Classify(in); k != ref.KPlain && k != ref.KTagged {
		o.NonTrivial = true
	}
	_ = call
	// the conversation remains usable: drop whatever is in flight, then a fresh key exchange and a message each way
	if c.NoKey || c.PolA&3 == 0 && false {
		return o
	}
	probe(s, o, "C13receive")
	return o
}

// probe checks usability: a text each way in the current session if both are encrypted, else a new key exchange first.
func probe(s *Sess, o *sim.Outcome, test string) {
	w := s.W
	w.Q[0], w.Q[1] = nil, nil
	w.P[0].R.Heal()
	w.P[1].R.Heal()
	var res string
	m := sim.Measure(2*watchdog, func() {
		try := func() bool {
			for d := 0; d < 2; d++ {
				t := s.Text(d, 6, 0)
				c := w.Send(d, t)
				if c.Err != nil {
					res = fmt.Sprintf("Send failed: %v", c.Err)
					return false
				}
				var got []byte
				for i := 0; i < 50 && w.Pending() > 0; i++ {
					dir := d
					if len(w.Q[dir]) == 0 {
						dir = 1 - d
					}
					cc, _ := s.DeliverQ(dir, 0)
					if cc != nil && cc.Who == 1-d && cc.HasPl {
						got = cc.Plain
					}
				}
				if !bytes.Equal(got, t) {
					res = fmt.Sprintf("text from %s was not delivered", w.P[d].Name)
					return false
				}
			}
			return true
		}
		if w.P[0].C.IsEncrypted() && w.P[1].C.IsEncrypted() && try() {
			res = ""
			return
		}
		// start over
		w.End(0)
		w.End(1)
		w.Q[0], w.Q[1] = nil, nil
		w.AgeClock(0, 5*time.Minute)
		w.AgeClock(1, 5*time.Minute)
		w.Query(1)
		s.Exec(SOp{K: "flush"})
		if !w.P[0].C.IsEncrypted() || !w.P[1].C.IsEncrypted() {
			res = "a fresh key exchange did not complete"
			return
		}
		if try() {
			res = ""
		}
	})
	if m.Panic != "" || m.Hung {
		m.Verdict(o, "the usability probe", 0)
		return
	}
	if res != "" {
		o.Fail("C13/unusable", "after the call the conversation is not usable any more: %s", res)
	}
}

func init() {
	reg("C13strayake", runRecv)
	reg("C13truncations", runParser)
	reg("C13truncrecv", runRecv)
	reg("C13parsers", runParser)
	reg("C13receive", runRecv)
	reg("C13faults", runFault)
	reg("C13auth", runAuthPayload)
	reg("C13oddkeys", runOddKey)
}

// genBig draws a selector that is as often large as small (rapid's integer ranges favour small values,
// which would leave "huge count x large payload" combinations almost untried).
func genBig(rt *rapid.T, label string) int {
	switch rapid.IntRange(0, 3).Draw(rt, label+"class") {
	case 0:
		return rapid.IntRange(0, 300).Draw(rt, label)
	case 1:
		return rapid.SampledFrom([]int{255, 256, 4095, 4096, 16383, 32767, 32768, 59999, 60000, 65534, 65535, 65536, 69999}).Draw(rt, label)
	default:
		return 1000 * rapid.IntRange(1, 70).Draw(rt, label+"k")
	}
}

func TestProp_C13_Receive(t *testing.T) {
	defer sim.MarkCompleted("C13receive", false)
	defer sim.ClearCrumb()
	rapid.Check(t, func(rt *rapid.T) {
		c := &RecvCase{Cfg: genSessCfg(rt), PolA: rapid.IntRange(0, 63).Draw(rt, "pol"), State: rapid.IntRange(0, 10).Draw(rt, "state"),
			NoKey: rapid.IntRange(0, 7).Draw(rt, "nokey") == 0, Kind: rapid.IntRange(0, 12).Draw(rt, "kind"),
			A: genBig(rt, "a"), B: genBig(rt, "b")}
		c.Cfg.FragA, c.Cfg.FragB = 0, 0
		if c.Kind%13 <= 1 || c.Kind%13 == 7 {
			c.Raw = rapid.SliceOfN(rapid.Byte(), 0, 80).Draw(rt, "raw")
		}
		sim.Judge(rt, "C13receive", c)
	})
}

// TestProp_C13_StrayAKE: every key-exchange state (including both sides having started at once, for three seeds so
// that either side's commit wins) x every well-formed key-exchange message of another exchange, correctly or
// foreignly addressed; enumerated because the interesting combinations are one in thousands of random draws.
func TestProp_C13_StrayAKE(t *testing.T) {
	defer sim.ClearCrumb()
	si, sn := sim.Shard()
	idx := 0
	for _, v := range []int{3, 2} {
		for _, state := range []int{0, 1, 2, 3, 4, 5, 7, 10} {
			for seed := 0; seed < 3; seed++ {
				for a := 0; a < 8; a++ { // recorded exchange started by either side x its messages
					for b := 0; b < 3; b++ { // how far the crossing exchange got / addressing
						if state != 10 && b > 1 {
							continue
						}
						idx++
						if idx%sn != si {
							continue
						}
						c := &RecvCase{Cfg: SessCfg{V: v, SeedA: 1300 + uint64(seed)*2, SeedB: 1401 + uint64(seed)*6, KeyA: 0, KeyB: 3}, PolA: 0, State: state, Kind: 12, A: a, B: b * 2}
						sim.Judge(t, "C13strayake", c)
					}
				}
			}
		}
	}
	sim.MarkCompleted("C13strayake", true)
}

// ---- authenticated but malicious payloads (the peer holds the session keys) ----

type AuthCase struct {
	Cfg  SessCfg `json:"cfg"`
	Kind int     `json:"kind"`
	A    int     `json:"a,omitempty"`
	B    int     `json:"b,omitempty"`
}

func runAuthPayload(c *AuthCase) *sim.Outcome {
	o := &sim.Outcome{}
	sim.Crumb("C13auth", c)
	m := newMix(c.Cfg, 0)
	if !m.Establish(c.Cfg.Starter) {
		o.Discard = true
		return o
	}
	u16 := func(v int) []byte { return ref.PutU16(nil, uint16(v)) }
	var plain []byte
	text := []byte("t")
	switch c.Kind % 10 {
	case 0: // TLV length larger than what follows
		plain = append(append(text, 0), append(append(u16(c.A%9), u16(4+c.B%65530)...), 1, 2, 3)...)
	case 1: // truncated TLV header
		plain = append(append(text, 0), u16(c.A % 9)[:1+c.B%2]...)
	case 2: // SMP TLV with a huge MPI count
		plain = append(append(text, 0), append(append(u16(2+c.A%4), u16(8)...), 0xff, 0xff, 0xff, 0xff, 0, 0, 0, 1)...)
	case 3: // SMP1Q without NUL
		plain = append(append(text, 0), append(append(u16(7), u16(5)...), []byte("abcde")...)...)
	case 4: // extra symmetric key TLV shorter than 4 bytes
		plain = append(append(text, 0), append(append(u16(8), u16(c.B%4)...), []byte("abc")[:c.B%4]...)...)
	case 5: // MPI inside an SMP TLV longer than the TLV
		v := append(ref.PutU32(nil, 6), 0x7f, 0xff, 0xff, 0xff, 1, 2)
		plain = append(append(text, 0), append(append(u16(2), u16(len(v))...), v...)...)
	case 6: // many empty TLVs
		plain = append(text, 0)
		for i := 0; i < 2000+c.A%2000; i++ {
			typ := i % 9
			if typ == 1 { // a disconnect TLV would legitimately end the session
				typ = 0
			}
			plain = append(plain, append(u16(typ), u16(0)...)...)
		}
	case 7: // unknown TLV types, maximal length
		v := make([]byte, 65535)
		plain = append(append(text, 0), append(append(u16(0x1000+c.A), u16(65535)...), v...)...)
	case 8: // no text, only NUL
		plain = []byte{0}
	case 9: // SMP message out of nowhere with valid structure but zero values
		v := ref.PutU32(nil, uint32(3+c.A%9))
		for i := 0; i < 3+c.A%9; i++ {
			v = ref.PutMPI(v, ref.P)
		}
		plain = append(append(text, 0), append(append(u16(2+c.B%6), u16(len(v))...), v...)...)
	}
	wire := m.R.SendOpts(nil, ref.DataOpts{RawPlain: plain, Flags: byte(c.B % 2)})
	ms := sim.Measure(watchdog, func() { m.AReceive(wire) })
	if !ms.Verdict(o, "Receive(authenticated payload)", len(wire)) {
		if ms.Hung {
			sim.FailHard("C13auth", o, c)
		}
		return o
	}
	o.Class(fmt.Sprintf("auth-kind%d", c.Kind%10))
	o.NonTrivial = true
	// still usable: a genuine message each way
	m.QtoR = nil
	for len(m.QtoA) > 0 {
		m.DeliverToA()
	}
	t := []byte("still there?")
	c2 := m.AReceive(m.R.Send(t))
	if !c2.HasPl || !bytes.Equal(c2.Plain, t) {
		return o.Fail("C13/unusable", "after a malicious authenticated payload the next genuine message was not delivered (err=%v)", c2.Err)
	}
	m.QtoR = nil
	m.ASend([]byte("yes"))
	var got []byte
	for len(m.QtoR) > 0 {
		p, err, _ := m.DeliverToR()
		if err != nil {
			return o.Fail("C13/unusable", "after a malicious authenticated payload the victim's next message was not readable: %v", err)
		}
		if p != nil {
			got = p
		}
	}
	if string(got) != "yes" {
		return o.Fail("C13/unusable", "after a malicious authenticated payload the victim's next message did not arrive")
	}
	return o
}

func TestProp_C13_Auth(t *testing.T) {
	defer sim.MarkCompleted("C13auth", false)
	defer sim.ClearCrumb()
	rapid.Check(t, func(rt *rapid.T) {
		c := &AuthCase{Cfg: genSessCfg(rt), Kind: rapid.IntRange(0, 9).Draw(rt, "kind"), A: genBig(rt, "a"), B: genBig(rt, "b")}
		c.Cfg.FragB = 0
		sim.Judge(rt, "C13auth", c)
	})
}

// ---- randomness failure at every read index ----

// FaultCase: scenario Scn with read number K of party Who failing in mode Mode.
type FaultCase struct {
	V    int `json:"v"`
	Scn  int `json:"scn"`
	Who  int `json:"who"`
	K    int `json:"k"`
	Mode int `json:"mode"`
}

// faultScenario runs the scenario; fail(k) arms the fault. It returns the number of reads each party made.
func faultScenario(c *FaultCase, o *sim.Outcome, arm bool) (*Sess, [2]int) {
	cfg := SessCfg{V: c.V, SeedA: 900, SeedB: 1001, KeyA: 0, KeyB: 3}
	s := newSess(&SessScript{Cfg: cfg}, o)
	w := s.W
	if arm {
		w.P[c.Who].R.FailAt, w.P[c.Who].R.FailMode = c.K, c.Mode%3
		if c.Mode >= 3 {
			// only this one read fails: what went wrong stays wrong, and the genuine traffic that follows meets it
			w.P[c.Who].R.FailFor = 1
		}
	}
	all := func() { s.Exec(SOp{K: "flush"}) }
	switch c.Scn {
	case 0: // key exchange started by A's query, then one message each way
		w.Query(0)
		all()
		s.Send(0, s.Text(0, 5, 0))
		s.Send(1, s.Text(1, 5, 0))
		all()
	case 2: // SMP runs that are restarted and answered late, by either side
		w.Query(0)
		all()
		w.SMPStart(0, "", []byte("s"))
		all()
		w.SMPStart(0, "again?", []byte("s")) // restart while the first run is in progress
		s.asked[1] = true
		w.SMPAnswer(1, []byte("s"))
		all()
		w.SMPStart(1, "", []byte("t"))
		s.DeliverQ(1, 0)
		s.asked[0] = true
		w.SMPAnswer(0, []byte("t"))
		w.SMPStart(1, "", []byte("t")) // the initiator restarts while the answer is in flight
		all()
		s.asked[0] = true
		w.SMPAnswer(0, []byte("t"))
		all()
		w.SMPAbort(0)
		w.SMPStart(0, "", []byte("u"))
		all()
		s.asked[1] = true
		w.SMPAnswer(1, []byte("u"))
		all()
	default: // rotations with a held message, SMP, extra key, End
		w.Query(1)
		all()
		s.Send(1, s.Text(1, 5, 0)) // b0 stays in flight
		s.Send(0, s.Text(0, 5, 0))
		s.DeliverQ(0, 0)
		s.Send(1, s.Text(1, 5, 0))
		s.DeliverQ(1, 1) // b1 overtakes b0
		s.Send(0, s.Text(0, 5, 0))
		s.DeliverQ(0, 0)
		s.DeliverQ(1, 0) // b0 at last
		s.Exec(SOp{K: "pp", W: 0, I: 1, L: 3})
		w.SMPStart(0, "", []byte("s"))
		all()
		s.asked[1] = true
		w.SMPAnswer(1, []byte("s"))
		all()
		w.ExtraKey(0, 1, nil)
		w.ExtraKey(1, 1, nil)
		all()
		w.P[0].C.InitializeInstanceTag(0)
		w.End(0)
		all()
		w.End(1)
	}
	return s, [2]int{w.P[0].R.Reads(), w.P[1].R.Reads()}
}

func runFault(c *FaultCase) *sim.Outcome {
	o := &sim.Outcome{}
	sim.Crumb("C13faults", c)
	var s *Sess
	m := sim.Measure(4*watchdog, func() { s, _ = faultScenario(c, o, true) })
	if m.Panic != "" || m.Hung {
		m.Verdict(o, "a call with failing randomness", 0)
		if m.Hung {
			sim.FailHard("C13faults", o, c)
		}
		return o
	}
	if s.W.P[c.Who].R.Failed > 0 {
		o.NonTrivial = true
		o.Class("fault-reached")
	} else {
		o.Class("fault-not-reached")
	}
	probe(s, o, "C13faults")
	return o
}

func TestProp_C13_Faults(t *testing.T) {
	defer sim.ClearCrumb()
	si, sn := sim.Shard()
	idx := 0
	for _, v := range []int{3, 2} {
		for scn := 0; scn < 3; scn++ {
			_, reads := faultScenario(&FaultCase{V: v, Scn: scn}, &sim.Outcome{}, false)
			for who := 0; who < 2; who++ {
				for k := 0; k <= reads[who]; k++ {
					for mode := 0; mode < 5; mode++ {
						if !sim.Thorough() && (mode == 2 || mode == 4) {
							continue
						}
						idx++
						if idx%sn != si {
							continue
						}
						sim.Judge(t, "C13faults", &FaultCase{V: v, Scn: scn, Who: who, K: k, Mode: mode})
					}
				}
			}
		}
	}
	sim.MarkCompleted("C13faults", true)
}

// ---- key exchange with a peer whose DSA public key has unusual parameter sizes ----

// OddKeyCase: the authenticated-looking peer advertises a DSA key with a q of QBits bits (real OTR keys: 160).
type OddKeyCase struct {
	V       int `json:"v"`
	Starter int `json:"starter"`
	QBits   int `json:"qbits"`
	PBits   int `json:"pbits"`
}

func oddInt(bits, salt int) *big.Int {
	if bits <= 0 {
		return new(big.Int)
	}
	b := filler(1, (bits+7)/8, salt)
	v := new(big.Int).SetBytes(b)
	v.SetBit(v, bits-1, 1)
	for v.BitLen() > bits {
		v.Rsh(v, 1)
	}
	return v.SetBit(v, 0, 1)
}

func runOddKey(c *OddKeyCase) *sim.Outcome {
	o := &sim.Outcome{}
	sim.Crumb("C13oddkeys", c)
	m := newMix(SessCfg{V: c.V, SeedA: 2300, SeedB: 2401, KeyA: 0, KeyB: 3}, 0)
	pub := []byte{0, 0}
	pub = ref.PutMPI(pub, oddInt(c.PBits, 1))
	pub = ref.PutMPI(pub, oddInt(c.QBits, 2))
	pub = ref.PutMPI(pub, big.NewInt(2))
	pub = ref.PutMPI(pub, oddInt(c.PBits-1, 3))
	m.R.Advertise = pub
	ms := sim.Measure(watchdog, func() { m.Establish(c.Starter) })
	if !ms.Verdict(o, "Receive(key exchange with an unusual DSA key)", 2000) {
		if ms.Hung {
			sim.FailHard("C13oddkeys", o, c)
		}
		return o
	}
	if m.A.C.IsEncrypted() {
		return o.Fail("C13/oddkey-accepted", "the victim became encrypted although the peer's signature cannot verify under the advertised key (q of %d bits)", c.QBits)
	}
	o.Class(fmt.Sprintf("q%d", c.QBits))
	o.NonTrivial = true
	// afterwards an honest exchange with the same peer still works
	m.R.Advertise = nil
	m.R.State, m.R.TheirTag = ref.StNone, 0
	m.QtoA, m.QtoR = nil, nil
	sim.Age(m.A.C, 5*60e9)
	if !m.Establish(c.Starter) {
		return o.Fail("C13/unusable", "after the failed exchange an honest key exchange does not complete")
	}
	return o
}

func TestProp_C13_OddKeys(t *testing.T) {
	defer sim.ClearCrumb()
	si, sn := sim.Shard()
	idx := 0
	for _, v := range []int{3, 2} {
		for starter := 0; starter < 2; starter++ {
			for _, qb := range []int{0, 1, 8, 64, 159, 160, 161, 200, 248, 249, 256, 320, 512, 1024} {
				for _, pb := range []int{1024, 64, 2048} {
					if pb != 1024 && qb != 256 && qb != 160 {
						continue
					}
					idx++
					if idx%sn != si {
						continue
					}
					sim.Judge(t, "C13oddkeys", &OddKeyCase{V: v, Starter: starter, QBits: qb, PBits: pb})
				}
			}
		}
	}
	sim.MarkCompleted("C13oddkeys", true)
}

// ---- every cut of genuine traffic (C13): messages that end after any number of bytes ----

// TestProp_C13_Truncations: every message of a real session (key exchange, data messages, both versions, whole and
// in fragments) is cut after each of its first 40 and last 8 decoded bytes and re-armoured, and cut after each of the
// first 24 and last 6 characters of its text form; every cut goes to the tag extraction helper that clients call on
// whatever arrives, and the decoded-body cuts go to Receive of a fresh conversation and of one in the session.
func TestProp_C13_Truncations(t *testing.T) {
	defer sim.ClearCrumb()
	si, sn := sim.Shard()
	idx := 0
	for _, v := range []int{3, 2} {
		for _, frag := range []int{0, 60} {
			cfg := SessCfg{V: v, SeedA: 1500, SeedB: 1601, KeyA: 0, KeyB: 3, FragB: frag}
			s := newSess(&SessScript{Cfg: cfg}, &sim.Outcome{})
			s.Handshake(1)
			s.Exec(SOp{K: "pp", W: 1, L: 10})
			seen := map[string]bool{}
			var wires [][]byte
			for _, wr := range s.W.Log {
				if k := string(wr.Data[:min(len(wr.Data), 14)]); wr.From == 1 && !seen[k] {
					seen[k] = true
					wires = append(wires, wr.Data)
				}
			}
			for _, wire := range wires {
				var cuts [][]byte
				for n := 0; n <= len(wire); n++ {
					if n <= 24 || n >= len(wire)-6 {
						cuts = append(cuts, wire[:n])
					}
				}
				var bodyCuts [][]byte
				if raw, ok := ref.Dearmor(wire); ok {
					for n := 0; n <= len(raw); n++ {
						if n <= 40 || n >= len(raw)-8 {
							bodyCuts = append(bodyCuts, ref.Armor(raw[:n]))
						}
					}
				}
				for _, in := range append(cuts, bodyCuts...) {
					idx++
					if idx%sn != si {
						continue
					}
					sim.Judge(t, "C13truncations", &ParserCase{Fn: "ExtractInstanceTags", In: in})
				}
				for _, in := range bodyCuts {
					for _, state := range []int{0, 5} {
						idx++
						if idx%sn != si {
							continue
						}
						sim.Judge(t, "C13truncrecv", &RecvCase{Cfg: SessCfg{V: v, SeedA: 1500, SeedB: 1601, KeyA: 0, KeyB: 3}, PolA: 0, State: state, Kind: 0, Raw: in})
					}
				}
			}
		}
	}
	sim.MarkCompleted("C13truncations", true)
	sim.MarkCompleted("C13truncrecv", true)
}
