package props

import (
	"fmt"
	"math/big"
	"testing"

	"pgregory.net/rapid"

	"verif/harness/ref"
	"verif/harness/sim"
)

// ---- C12 (TLV blocks): SMP messages that deviate by the company they keep ----
//
// One data message can carry several TLVs. An honest peer sends one SMP TLV per message and never anything
// behind a disconnect; a deviant one may send any block. Whatever the block, the receiver must not report
// success, must not crash, and a fresh honest run with equal secrets must succeed afterwards - in the same
// session if it survived the block, otherwise in the next one.

// BlockScript: reach a state honestly (Pre), then deliver one data message with the TLV block, then recover.
type BlockScript struct {
	Cfg   SessCfg  `json:"cfg"`
	Pre   string   `json:"pre"`   // "" idle, "asked" (honest SMP1 pending), "answered" (victim sent SMP2), "started" (victim sent SMP1)
	Block []string `json:"block"` // disc pad junk smp1 smp1q smp2 smp3 smp4 abort
	EndV  bool     `json:"endv"`  // the victim's user closes a conversation the peer ended, before the next session
}

func runC12Blocks(sc *BlockScript) *sim.Outcome {
	o := &sim.Outcome{}
	m := newMix(sc.Cfg, 0)
	m.R.SMPPassive = true
	secret := []byte("the shared secret")
	if !m.Establish(sc.Cfg.Starter) {
		o.Discard = true
		return o
	}
	rnd := func() *big.Int {
		b := make([]byte, 192)
		m.RRand.Read(b)
		return new(big.Int).SetBytes(b)
	}
	// a complete honest transcript between two reference provers: well-formed messages of every type,
	// none of which belongs to a run the victim takes part in
	sec := ref.SMPSecret(ref.Fingerprint(m.R.Key.PubBytes()), ref.Fingerprint(m.Obs.Long[0]), m.R.SSID[:], secret)
	pa, pb := &ref.SMP{Secret: sec, Rnd: rnd}, &ref.SMP{Secret: sec, Rnd: rnd}
	t1 := pa.Step1()
	t2, _ := pb.Step2(t1)
	t3, _ := pa.Step3(t2)
	t4, _, _ := pb.Step4(t3)
	switch sc.Pre {
	case "asked", "answered":
		m.asked = false
		m.R.SMPPassive = true
		p := &ref.SMP{Secret: sec, Rnd: rnd}
		m.fromR(m.R.SendOpts(nil, ref.DataOpts{Flags: 1, TLVs: []ref.TLV{ref.SMPTLV(ref.TLVSMP1, nil, p.Step1()...)}}))
		m.Settle(nil, nil)
		if !m.asked {
			return o.Fail("C12/honest-rejected", "an honest SMP1 did not make the victim ask for the secret")
		}
		if sc.Pre == "answered" {
			out, err := m.A.C.ProvideAuthenticationSecret(secret)
			m.fromA("ProvideAuthenticationSecret", nil, nil, out, err, m.A.Snap(), true)
			m.Settle(nil, nil)
		}
	case "started":
		out, err := m.A.C.StartAuthenticate("", secret)
		m.fromA("StartAuthenticate", nil, nil, out, err, m.A.Snap(), true)
		m.Settle(nil, nil)
	}
	var tlvs []ref.TLV
	nSMP, hasDisc, afterDisc := 0, false, false
	for _, k := range sc.Block {
		switch k {
		case "disc":
			tlvs = append(tlvs, ref.TLV{Type: ref.TLVDisconnected})
			hasDisc = true
		case "pad":
			tlvs = append(tlvs, ref.TLV{Type: ref.TLVPadding, Val: make([]byte, 7)})
		case "junk":
			tlvs = append(tlvs, ref.TLV{Type: 0x77, Val: []byte("unknown")})
		case "smp1":
			tlvs = append(tlvs, ref.SMPTLV(ref.TLVSMP1, nil, t1...))
		case "smp1q":
			tlvs = append(tlvs, ref.SMPTLV(ref.TLVSMP1Q, []byte("who?"), t1...))
		case "smp2":
			tlvs = append(tlvs, ref.SMPTLV(ref.TLVSMP2, nil, t2...))
		case "smp3":
			tlvs = append(tlvs, ref.SMPTLV(ref.TLVSMP3, nil, t3...))
		case "smp4":
			tlvs = append(tlvs, ref.SMPTLV(ref.TLVSMP4, nil, t4...))
		case "abort":
			tlvs = append(tlvs, ref.SMPTLV(ref.TLVSMPAbort, nil))
		}
		if k != "disc" && k != "pad" && k != "junk" {
			nSMP++
			if hasDisc {
				afterDisc = true
			}
		}
	}
	nEv := len(m.A.SMP)
	m.asked = false
	m.fromR(m.R.SendOpts(nil, ref.DataOpts{Flags: 1, TLVs: tlvs}))
	m.Settle(nil, nil)
	if succ, _, _, _, _ := smpFlags(m.A.SMP[nEv:]); succ {
		{
			return o.Fail("C12/false-success", "a data message carrying the TLV block %v made the victim report SMP success (state before: %q)", sc.Block, sc.Pre)
		}
	}
	// an abort followed by a first message in one data message is what an honest peer sends when its user starts over
	// while a run is in progress: the receiver must ask for the secret
	honestRestart := len(sc.Block) >= 2 && !hasDisc
	for i, k := range sc.Block {
		last := i == len(sc.Block)-1
		if last && k != "smp1" && k != "smp1q" || !last && k != "abort" && k != "pad" && k != "junk" {
			honestRestart = false
		}
	}
	if honestRestart && sc.Block[len(sc.Block)-2] == "abort" {
		if !m.asked {
			return o.Fail("C12/restart-unanswerable", "a data message carrying %v (an abort and a new first message, as sent by a peer whose user starts over) did not make the victim ask for the secret (state before: %q, events %v)", sc.Block, sc.Pre, m.A.SMP[nEv:])
		}
		o.Class("honest-restart-shape")
	}
	if nSMP >= 2 {
		o.Class("several-smp-tlvs")
	}
	if afterDisc {
		o.Class("smp-behind-disconnect")
	}
	// recover: the session may be over
	if !m.A.C.IsEncrypted() {
		o.Class("session-ended-by-block")
		if sc.EndV {
			out, _ := m.A.C.End()
			_ = out
		}
		m.QtoA, m.QtoR = nil, nil
		m.R.Encrypted, m.R.Finished = false, false
		sim.Age(m.A.C, 3*60e9)
		if !m.Establish(1 - sc.Cfg.Starter) {
			return o.Fail("C12/stuck", "no new session could be established after the TLV block %v", sc.Block)
		}
		sec = ref.SMPSecret(ref.Fingerprint(m.R.Key.PubBytes()), ref.Fingerprint(m.Obs.Long[0]), m.R.SSID[:], secret)
	} else {
		// the peer gives up whatever it had going, as an honest peer would before starting afresh
		m.fromR(m.R.SendOpts(nil, ref.DataOpts{Flags: 1, TLVs: []ref.TLV{ref.SMPTLV(ref.TLVSMPAbort, nil)}}))
		m.Settle(nil, nil)
	}
	// a fresh honest run started by the peer ...
	m.R.SMPPassive = false
	nEv = len(m.A.SMP)
	m.asked = false
	m.fromR(m.R.SMPStart(secret, ""))
	m.Settle(nil, nil)
	if !m.asked {
		return o.Fail("C12/stuck", "after the TLV block %v (state before: %q) a fresh SMP1 in a working session did not make the victim ask for the secret; events %v", sc.Block, sc.Pre, m.A.SMP[nEv:])
	}
	out, err := m.A.C.ProvideAuthenticationSecret(secret)
	m.fromA("ProvideAuthenticationSecret", nil, nil, out, err, m.A.Snap(), true)
	m.Settle(nil, nil)
	if s, _, _, _, _ := smpFlags(m.A.SMP[nEv:]); !s || !m.R.SMPResult.Match {
		return o.Fail("C12/stuck", "after the TLV block %v a fresh honest run with equal secrets did not succeed (victim events %v, peer %+v)", sc.Block, m.A.SMP[nEv:], m.R.SMPResult)
	}
	// ... and one started by the victim
	nEv = len(m.A.SMP)
	m.R.AutoSecret = secret
	out, err = m.A.C.StartAuthenticate("", secret)
	m.fromA("StartAuthenticate", nil, nil, out, err, m.A.Snap(), true)
	m.Settle(nil, nil)
	if s, _, _, _, _ := smpFlags(m.A.SMP[nEv:]); !s {
		return o.Fail("C12/stuck", "after the TLV block %v a fresh run started by the victim did not succeed (events %v)", sc.Block, m.A.SMP[nEv:])
	}
	o.Class(fmt.Sprintf("v%d", sc.Cfg.V))
	o.Class("pre-" + sc.Pre)
	o.NonTrivial = nSMP >= 2 || afterDisc || (nSMP >= 1 && len(sc.Block) >= 2)
	return o
}

func init() { reg("C12blocks", runC12Blocks) }

var blockKinds = []string{"disc", "pad", "junk", "smp1", "smp1q", "smp2", "smp3", "smp4", "abort"}

// TestProp_C12_Blocks: every block of one or two TLVs in every honest pre-state, both versions (enumerated),
// plus generated longer blocks.
func TestProp_C12_Blocks(t *testing.T) {
	si, sn := sim.Shard()
	idx := 0
	for _, v := range []int{3, 2} {
		for _, pre := range []string{"", "asked", "answered", "started"} {
			for _, a := range blockKinds {
				for _, b := range append([]string{""}, blockKinds...) {
					block := []string{a}
					if b != "" {
						block = append(block, b)
					}
					idx++
					if idx%sn != si {
						continue
					}
					sim.Judge(t, "C12blocks", &BlockScript{Cfg: SessCfg{V: v, SeedA: 1200, SeedB: 1301, KeyA: 0, KeyB: 3, Starter: idx & 1}, Pre: pre, Block: block, EndV: idx%3 == 0})
				}
			}
		}
	}
	sim.MarkCompleted("C12blocks", true)
}

func TestProp_C12_LongBlocks(t *testing.T) {
	defer sim.MarkCompleted("C12longblocks", false)
	rapid.Check(t, func(rt *rapid.T) {
		sc := &BlockScript{Cfg: genSessCfg(rt), Pre: rapid.SampledFrom([]string{"", "asked", "answered", "started"}).Draw(rt, "pre"),
			Block: rapid.SliceOfN(rapid.SampledFrom(blockKinds), 3, 6).Draw(rt, "block"), EndV: rapid.Bool().Draw(rt, "endv")}
		sc.Cfg.FragA, sc.Cfg.FragB = 0, 0
		sim.Judge(rt, "C12longblocks", sc)
	})
}

func init() { reg("C12longblocks", runC12Blocks) }

// ---- C12 (two real parties): user calls that the state does not expect, and the abort that follows ----
//
// With a reference peer the question "is the *peer* still in step?" cannot be asked. Here both ends are otr3
// conversations. After any sequence of starts, answers, aborts and deliveries - including calls made in states
// that do not expect them, which reset one side without telling the other - a user who calls
// AbortAuthentication and then starts afresh must get a run that succeeds with equal secrets: the explicit
// abort is what brings the two state machines back in step.

type SyncScript struct {
	Cfg SessCfg `json:"cfg"`
	Ops []SOp   `json:"ops"` // smp ans abort dl flush drop
	Who int     `json:"who"` // who aborts and starts the final run
}

func runC12Sync(sc *SyncScript) *sim.Outcome {
	o := &sim.Outcome{}
	cfg := sc.Cfg
	cfg.FragA, cfg.FragB = 0, 0
	s := newSess(&SessScript{Cfg: cfg}, o)
	if !s.Handshake(cfg.Starter) {
		o.Discard = true
		return o
	}
	unexpected := 0
	for _, op := range sc.Ops {
		switch op.K {
		case "ansx":
			// an answer although nobody asked (or although we are the one who asked)
			c := s.W.SMPAnswer(op.W&1, s.secrets[0])
			if c.Err != nil {
				unexpected++
			}
		case "smp", "ans":
			op.X = 0
			s.Exec(op)
		default:
			s.Exec(op)
		}
		for p := 0; p < 2; p++ {
			if succ, _, _, _, _ := smpFlags(s.W.P[p].SMP); succ && op.K != "ans" && op.K != "flush" && op.K != "dl" {
				return o.Fail("C12/false-success", "%s reported success during a call that cannot complete a run (%s)", s.W.P[p].Name, op.K)
			}
		}
	}
	who := sc.Who & 1
	s.W.SMPAbort(who)
	s.Exec(SOp{K: "flush"})
	n0, n1 := len(s.W.P[0].SMP), len(s.W.P[1].SMP)
	s.asked = [2]bool{}
	s.W.SMPStart(who, "", s.secrets[0])
	s.Exec(SOp{K: "flush"})
	if !s.asked[1-who] {
		return o.Fail("C12/stuck", "after %v, an abort by %s's user and a fresh start, the peer was not asked for the secret (peer events %v, own %v)", opNames(sc.Ops), s.W.P[who].Name, s.W.P[1-who].SMP[[2]int{n0, n1}[1-who]:], s.W.P[who].SMP[[2]int{n0, n1}[who]:])
	}
	s.W.SMPAnswer(1-who, s.secrets[0])
	s.Exec(SOp{K: "flush"})
	a, _, _, _, _ := smpFlags(s.W.P[0].SMP[n0:])
	b, _, _, _, _ := smpFlags(s.W.P[1].SMP[n1:])
	if !a || !b {
		return o.Fail("C12/stuck", "after %v, an abort by %s's user and a fresh start, the run with equal secrets did not succeed on both sides (A %v, B %v)", opNames(sc.Ops), s.W.P[who].Name, s.W.P[0].SMP[n0:], s.W.P[1].SMP[n1:])
	}
	if unexpected > 0 {
		o.Class("call-in-unexpecting-state")
	}
	o.NonTrivial = len(sc.Ops) > 0
	return o
}

func opNames(ops []SOp) []string {
	var out []string
	for _, op := range ops {
		out = append(out, fmt.Sprintf("%s/%d", op.K, op.W&1))
	}
	return out
}

func init() { reg("C12sync", runC12Sync) }

// TestProp_C12_Sync: every sequence of up to 4 steps over {start, answer (asked or not), abort, deliver all,
// lose what is in flight} by either user, then abort + fresh run by either user; both versions.
func TestProp_C12_Sync(t *testing.T) {
	si, sn := sim.Shard()
	var alphabet []SOp
	for w := 0; w < 2; w++ {
		alphabet = append(alphabet, SOp{K: "smp", W: w}, SOp{K: "ansx", W: w}, SOp{K: "abort", W: w})
	}
	alphabet = append(alphabet, SOp{K: "flush"}, SOp{K: "drop", W: 0}, SOp{K: "drop", W: 1})
	depth := 3
	if sim.Thorough() {
		depth = 4
	}
	idx := 0
	for _, v := range []int{3, 2} {
		var rec func(prefix []SOp)
		rec = func(prefix []SOp) {
			for who := 0; who < 2; who++ {
				idx++
				if idx%sn == si {
					sim.Judge(t, "C12sync", &SyncScript{Cfg: SessCfg{V: v, SeedA: 1260, SeedB: 1361, KeyA: 0, KeyB: 3}, Ops: append([]SOp{}, prefix...), Who: who})
				}
			}
			if len(prefix) == depth {
				return
			}
			for _, a := range alphabet {
				if len(prefix) == 0 && a.W == 1 {
					continue // by symmetry: the first user action is A's (the final abort is tried from both sides)
				}
				rec(append(prefix, a))
			}
		}
		rec(nil)
	}
	sim.MarkCompleted("C12sync", true)
}
