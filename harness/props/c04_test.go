package props

import (
	"bytes"
	"fmt"
	"strings"
	"testing"
	"time"

	"github.com/coyim/otr3"
	"pgregory.net/rapid"

	"verif/harness/ref"
	"verif/harness/sim"
)

// ---- C04: exactly-once, in-order, unchanged delivery across DH key rotation ----

// SessCfg is the configuration shared by the session-level checks.
type SessCfg struct {
	V       int    `json:"v"` // 2 or 3
	FragA   int    `json:"fa,omitempty"`
	FragB   int    `json:"fb,omitempty"`
	SeedA   uint64 `json:"sa"`
	SeedB   uint64 `json:"sb"`
	KeyA    int    `json:"ka"`
	KeyB    int    `json:"kb"`
	Starter int    `json:"st,omitempty"`
	NoErrH  bool   `json:"neh,omitempty"`
	SkA     int    `json:"ska,omitempty"` // this many of A's first D-H public values are a byte shorter than usual
	SkB     int    `json:"skb,omitempty"`
	// where the peer is the reference implementation: freedoms the specification leaves to the sender
	RPad int `json:"rpad,omitempty"` // > 0: every record block starts with a padding record of RPad-1 bytes
	RKid int `json:"rkid,omitempty"` // > 0: serial number of the reference's first D-H key (libotr and otr3 use 1)
}

func (c SessCfg) pol() int {
	switch c.V {
	case 0:
		return 0
	case 2:
		return sim.PolV2
	}
	return sim.PolV3
}

func (c SessCfg) world() *sim.World {
	return sim.NewWorld(
		sim.PartyOpts{Seed: c.SeedA, Pol: c.pol(), KeyI: c.KeyA, Frag: c.FragA, NoErrH: c.NoErrH, ShortKeys: c.SkA},
		sim.PartyOpts{Seed: c.SeedB, Pol: c.pol(), KeyI: c.KeyB, Frag: c.FragB, NoErrH: c.NoErrH, ShortKeys: c.SkB, ShortFrom: 1})
}

func minFrag(v int) int {
	if v == 2 {
		return 19
	}
	return 37
}

func genFrag(t *rapid.T, v int, label string) int {
	m := minFrag(v)
	switch rapid.IntRange(0, 9).Draw(t, label+"class") {
	case 0, 1, 2, 3:
		return 0
	case 4:
		return m + rapid.IntRange(0, 8).Draw(t, label)
	case 5:
		return rapid.SampledFrom([]int{63, 64, 65, 127, 128, 129, 255, 256, 257, 1023, 1024}).Draw(t, label)
	case 6:
		return rapid.IntRange(m, 400).Draw(t, label)
	case 7:
		return rapid.IntRange(400, 3000).Draw(t, label)
	case 8:
		return rapid.SampledFrom([]int{16383, 32767, 32768, 65535}).Draw(t, label)
	default:
		return rapid.IntRange(m, 65535).Draw(t, label)
	}
}

func genSessCfg(t *rapid.T) SessCfg {
	v := rapid.SampledFrom([]int{2, 3, 3}).Draw(t, "v")
	c := SessCfg{V: v,
		// distinct by construction: identical randomness on both sides is not a
		// situation two real parties can be in
		SeedA: 2 * rapid.Uint64Range(1, 1<<40).Draw(t, "seedA"),
		SeedB: 2*rapid.Uint64Range(1, 1<<40).Draw(t, "seedB") + 1,
		KeyA:  rapid.IntRange(0, 2).Draw(t, "keyA"),
		KeyB:  rapid.IntRange(3, 5).Draw(t, "keyB"),
	}
	c.FragA = genFrag(t, v, "fragA")
	c.FragB = genFrag(t, v, "fragB")
	c.Starter = rapid.IntRange(0, 1).Draw(t, "starter")
	if rapid.IntRange(0, 3).Draw(t, "shortkeys") == 0 {
		c.SkA, c.SkB = rapid.IntRange(0, 3).Draw(t, "ska"), rapid.IntRange(0, 3).Draw(t, "skb")
	}
	if rapid.IntRange(0, 3).Draw(t, "reffreedom") == 0 {
		c.RPad = rapid.IntRange(0, 6).Draw(t, "rpad")
		c.RKid = rapid.SampledFrom([]int{0, 2, 3, 100, 70000}).Draw(t, "rkid")
	}
	return c
}

// C04Op is one step of a C04 schedule.
type C04Op struct {
	K string `json:"k"`           // s send, d deliver (direction W→peer), age, smp, ans, xk
	W int    `json:"w"`           // acting party / direction
	L int    `json:"l,omitempty"` // text length
	F int    `json:"f,omitempty"` // filler kind
	X int    `json:"x,omitempty"` // text prefix: user text may itself look like protocol traffic
}

// C04Script is a generated case.
type C04Script struct {
	Cfg SessCfg `json:"cfg"`
	Ops []C04Op `json:"ops"`
}

type c04state struct {
	w        *sim.World
	sent     [2][]string
	got      [2][]string
	keyids   [2]map[uint32]bool
	maxSend  uint32
	maxRecip uint32
	maxFly   int
	nText    int
	smpAsked [2]bool
	o        *sim.Outcome
}

// noteWire inspects emitted messages for rotation statistics.
func (s *c04state) noteWire(c *sim.Call) {
	for _, m := range c.Out {
		raw, ok := ref.Dearmor(m)
		if !ok {
			continue
		}
		h, err := ref.ParseHeader(raw)
		if err != nil || h.Type != ref.TypeData {
			continue
		}
		d, err := ref.ParseData(raw[h.Len:])
		if err == nil {
			s.keyids[c.Who][d.SenderKeyID] = true
			if d.SenderKeyID > s.maxSend {
				s.maxSend = d.SenderKeyID
			}
			if d.RecipKeyID > s.maxRecip {
				s.maxRecip = d.RecipKeyID
			}
		}
	}
}

func (s *c04state) afterReceive(c *sim.Call) {
	if c == nil {
		return
	}
	r := c.Who
	if c.Err != nil {
		s.o.Fail("C04/receive-error", "Receive of a genuine in-order message failed at %s: %v", s.w.P[r].Name, c.Err)
		return
	}
	if c.HasPl {
		s.got[r] = append(s.got[r], string(c.Plain))
		n := len(s.got[r])
		peer := s.sent[1-r]
		if n > len(peer) || peer[n-1] != s.got[r][n-1] {
			want := "<nothing outstanding>"
			if n <= len(peer) {
				want = fmt.Sprintf("%.40q", peer[n-1])
			}
			s.o.Fail("C04/wrong-delivery", "%s received %.40q as delivery #%d, expected %s", s.w.P[r].Name, s.got[r][n-1], n, want)
		}
	}
	for _, e := range c.NewSMP(s.w.P[r]) {
		if e.Ev == otr3.SMPEventAskForSecret || e.Ev == otr3.SMPEventAskForAnswer {
			s.smpAsked[r] = true
		}
	}
}

func runC04(sc *C04Script) *sim.Outcome {
	o := &sim.Outcome{}
	w := sc.Cfg.world()
	s := &c04state{w: w, o: o}
	s.keyids[0], s.keyids[1] = map[uint32]bool{}, map[uint32]bool{}
	w.OnCall = s.noteWire
	if !w.Handshake(sc.Cfg.Starter) {
		o.Discard = true
		o.Note = "handshake did not complete"
		return o
	}
	for _, op := range sc.Ops {
		if o.Violation != "" {
			return o
		}
		who := op.W & 1
		switch op.K {
		case "s":
			s.nText++
			n := capLen(op.L, sc.Cfg.V, sc.Cfg.fragOf(who))
			text := append([]byte(token(who, s.nText)), filler(op.F, n, s.nText)...)
			text = append([]byte([]string{"", "", "", "", "?OTR", "?OTRv23? ", "?OTR?v2? ", "?OTR Error: ", "?OTR:AAMD", "?OTR|", "?OTR,1,2,", "", "", ""}[op.X%14]), text...)
			if op.X%14 >= 11 {
				// a text made of blanks only is a text (several in a row differ in length so that order stays decidable)
				text = []byte([]string{" ", "\n", "\t \r\n "}[op.X%14-11] + strings.Repeat(" ", s.nText%7))
			}
			c := w.Send(who, text)
			if c.Err != nil {
				o.Fail("C04/send-error", "Send failed in an encrypted session: %v", c.Err)
				return o
			}
			s.sent[who] = append(s.sent[who], string(text))
			if sc.Cfg.fragOf(who) > 0 {
				o.Class("fragmented-send")
			}
		case "d":
			if f := dataInFlight(w.Q[who]); f > s.maxFly {
				s.maxFly = f
			}
			if len(w.Q[who]) == 0 {
				who = 1 - who
			}
			s.afterReceive(w.Deliver(who, 0))
		case "frag":
			// the application changes the fragment size in mid-session, to anything a uint16 can hold: sizes too small
			// to carry a header are the library's business, not a reason to lose text
			sizes := []int{0, 1, 2, 5, 16, 17, 18, 19, 20, 30, 35, 36, 37, 38, 40, 60, 100, 333, 1000, 65535}
			w.P[who].C.SetFragmentSize(uint16(sizes[op.L%len(sizes)]))
			o.Class("fragment-size-changed")
		case "sk":
			// the next D-H key pair this party generates has a public value that is a byte shorter than usual
			w.P[who].R.ArmShort(who)
			o.Class("short-public-value-armed")
		case "age":
			w.AgeClock(who, 2*time.Minute)
			o.Class("aged")
		case "smp":
			c := w.SMPStart(who, "", []byte("secret"))
			if c.Err == nil {
				o.Class("smp")
			}
		case "ans":
			if s.smpAsked[who] {
				s.smpAsked[who] = false
				w.SMPAnswer(who, []byte("secret"))
				o.Class("smp-answer")
			}
		case "xk":
			w.ExtraKey(who, 7, []byte("use"))
			o.Class("extrakey")
		}
	}
	for n := 0; n < 100000 && w.Pending() > 0 && o.Violation == ""; n++ {
		dir := n % 2
		if len(w.Q[dir]) == 0 {
			dir = 1 - dir
		}
		s.afterReceive(w.Deliver(dir, 0))
	}
	if o.Violation != "" {
		return o
	}
	for r := 0; r < 2; r++ {
		if len(s.got[r]) != len(s.sent[1-r]) {
			o.Fail("C04/lost", "%s received %d of the %d texts sent to it", w.P[r].Name, len(s.got[r]), len(s.sent[1-r]))
			return o
		}
	}
	rotA, rotB := len(s.keyids[0])-1, len(s.keyids[1])-1
	if rotA >= 1 && rotB >= 1 {
		o.Class("rotation-both-axes")
	}
	if s.maxFly >= 2 {
		o.Class("inflight>=2")
	}
	if s.maxFly >= 4 {
		o.Class("inflight>=4")
	}
	// a rotation of the sender's own key shows as sender key id >= 2, a rotation
	// of the peer's key as recipient key id >= 2
	o.NonTrivial = s.maxSend >= 2 && s.maxRecip >= 2 && s.maxFly >= 2
	for p := 0; p < 2; p++ {
		for _, g := range s.got[p] {
			if len(g) >= 30000 {
				o.Class("long-text-delivered")
				o.NonTrivial = true
			}
		}
	}
	return o
}

// capLen bounds the text length so that one message needs at most ~400 pieces
// (tiny fragment sizes with long texts only cost time).
func capLen(n, v, frag int) int {
	if frag <= 0 {
		return n
	}
	payload := frag - minFrag(v) + 1
	max := payload*400*3/4 - 400
	if max < 0 {
		max = 0
	}
	if n > max {
		return max
	}
	return n
}

func (c SessCfg) fragOf(who int) int {
	if who == 0 {
		return c.FragA
	}
	return c.FragB
}

func dataInFlight(q []*sim.Wire) int {
	n := 0
	for _, m := range q {
		if bytes.HasPrefix(m.Data, []byte("?OTR:")) {
			n++
		} else if f, ok := ref.ParseFragment(m.Data); ok && f.K == f.N {
			n++
		}
	}
	return n
}

func init() { reg("C04random", runC04); reg("C04exhaustive", runC04); reg("C04words", runC04) }

func genC04Ops(t *rapid.T, maxOps int, maxLen int) []C04Op {
	n := rapid.IntRange(1, maxOps).Draw(t, "nops")
	ops := make([]C04Op, 0, n)
	for i := 0; i < n; i++ {
		k := rapid.SampledFrom([]string{"s", "s", "s", "s", "s", "s", "d", "d", "d", "d", "d", "d", "d", "d", "age", "smp", "ans", "ans", "xk", "sk", "frag"}).Draw(t, "k")
		op := C04Op{K: k, W: rapid.IntRange(0, 1).Draw(t, "w")}
		if k == "frag" {
			op.L = rapid.IntRange(0, 19).Draw(t, "size")
		}
		if k == "s" {
			cls := rapid.IntRange(0, len(lenClasses)-1).Draw(t, "lc")
			op.L = lenClasses[cls]
			if op.L > 7 {
				op.L = rapid.IntRange(op.L/2, op.L).Draw(t, "len")
			}
			if op.L > maxLen {
				op.L = maxLen
			}
			op.F = rapid.IntRange(0, 4).Draw(t, "f")
			op.X = rapid.IntRange(0, 13).Draw(t, "prefix")
		}
		ops = append(ops, op)
	}
	return ops
}

func TestProp_C04_Random(t *testing.T) {
	defer sim.MarkCompleted("C04random", false)
	maxOps, maxLen := 60, 5000
	if sim.Thorough() {
		maxOps, maxLen = 140, 5000
	}
	rapid.Check(t, func(rt *rapid.T) {
		sc := &C04Script{Cfg: genSessCfg(rt), Ops: genC04Ops(rt, maxOps, maxLen)}
		// very small fragments with long texts only cost time; bound the piece count
		sim.Judge(rt, "C04random", sc)
	})
}

// TestProp_C04_Words: many short words over just {send A, send B, deliver to B, deliver to A}, longer than the
// exhaustive bound reaches and without anything else in between: which message announces which key, and how many
// retired keys a message gives up at once, depends on the exact interleaving of these four steps alone.
func TestProp_C04_Words(t *testing.T) {
	defer sim.MarkCompleted("C04words", false)
	alphabet := []C04Op{{K: "s", W: 0, L: 3}, {K: "s", W: 1, L: 3}, {K: "d", W: 0}, {K: "d", W: 1}}
	rapid.Check(t, func(rt *rapid.T) {
		n := rapid.IntRange(8, 28).Draw(rt, "len")
		sc := &C04Script{Cfg: SessCfg{V: rapid.SampledFrom([]int{3, 2}).Draw(rt, "v"), SeedA: 2 * rapid.Uint64Range(1, 1<<20).Draw(rt, "sa"), SeedB: 2*rapid.Uint64Range(1, 1<<20).Draw(rt, "sb") + 1, KeyA: 0, KeyB: 3}}
		for i := 0; i < n; i++ {
			sc.Ops = append(sc.Ops, alphabet[rapid.IntRange(0, 3).Draw(rt, "step")])
		}
		sim.Judge(rt, "C04words", sc)
	})
}

// TestProp_C04_Exhaustive enumerates every word over {send A, send B, deliver
// A→B, deliver B→A} up to a bounded length, for both versions.
func TestProp_C04_Exhaustive(t *testing.T) {
	depth := 7
	if sim.Thorough() {
		depth = 9
	}
	si, sn := sim.Shard()
	alphabet := []C04Op{{K: "s", W: 0, L: 3}, {K: "s", W: 1, L: 3}, {K: "d", W: 0}, {K: "d", W: 1}}
	idx := 0
	for _, v := range []int{3, 2} {
		d := depth
		if v == 2 {
			d = depth - 1
		}
		cfg := SessCfg{V: v, SeedA: 11, SeedB: 22, KeyA: 0, KeyB: 3}
		var rec func(prefix []C04Op)
		rec = func(prefix []C04Op) {
			if len(prefix) > 0 {
				idx++
				if idx%sn == si {
					sc := &C04Script{Cfg: cfg, Ops: append([]C04Op{}, prefix...)}
					sim.Judge(t, "C04exhaustive", sc)
				}
			}
			if len(prefix) == d {
				return
			}
			for _, a := range alphabet {
				// delivering from an empty queue is a no-op: prune words whose
				// deliver has nothing to deliver (they equal a shorter word)
				if a.K == "d" && pendingAfter(prefix, a.W) == 0 {
					continue
				}
				rec(append(prefix, a))
			}
		}
		rec(nil)
	}
	sim.MarkCompleted("C04exhaustive", true)
}

// pendingAfter counts user messages still queued in direction dir after the word.
func pendingAfter(word []C04Op, dir int) int {
	n := 0
	for _, o := range word {
		if o.W == dir {
			if o.K == "s" {
				n++
			} else if o.K == "d" && n > 0 {
				n--
			}
		}
	}
	return n
}

// TestProp_C04_Long: texts of tens of kilobytes in both directions, whole and in pieces of several sizes (a long
// message spends a long time half reassembled at the receiver, and its length fields need more than two bytes).
func TestProp_C04_Long(t *testing.T) {
	si, sn := sim.Shard()
	idx := 0
	cases := [][2]int{{48000, 200}, {60000, 1400}, {60000, 8000}, {100000, 30000}, {100000, 0}, {70000, 65535}, {33000, 150}, {66000, 2000}}
	for _, v := range []int{3, 2} {
		for ci, lf := range cases {
			idx++
			if idx%sn != si {
				continue
			}
			sc := &C04Script{Cfg: SessCfg{V: v, SeedA: 31, SeedB: 42, KeyA: 0, KeyB: 3, FragA: lf[1], FragB: lf[1]}}
			sc.Ops = []C04Op{{K: "s", W: 0, L: 5}, {K: "s", W: ci & 1, L: lf[0], F: ci % 5}, {K: "s", W: 1 - ci&1, L: 7}, {K: "d", W: 0}, {K: "d", W: 1},
				{K: "s", W: 1 - ci&1, L: lf[0], F: (ci + 1) % 5}, {K: "s", W: ci & 1, L: 9}}
			sim.Judge(t, "C04long", sc)
		}
	}
	sim.MarkCompleted("C04long", true)
}

func init() { reg("C04long", runC04) }
