package props

import (
	"bytes"
	"fmt"
	"testing"
	"time"

	"pgregory.net/rapid"

	"verif/harness/ref"
	"verif/harness/sim"
)

// ---- C07: the key exchange always completes on a reliable network, however it is started ----

// AKECase: a start pattern and one interleaving of the two FIFO queues.
type AKECase struct {
	VA      int   `json:"va"`            // versions allowed by A: 2, 3 or 23
	VB      int   `json:"vb"`            // versions allowed by B
	Trigger int   `json:"trigger"`       // 0 query, 1 whitespace tag, 2 error message, 3 send under require-encryption, 4 refresh while encrypted (= query with Pre 1)
	Pre     int   `json:"pre,omitempty"` // 0 fresh, 1 both encrypted (clocks aged), 2 B lost its session (restarted), 3 A called End() just now, 4 B called End() just now
	Who     int   `json:"who"`           // 0 A starts, 1 B starts, 2 both
	Choices []int `json:"choices"`       // which queue delivers next whenever both are non-empty (missing: 0)
	Seed    int   `json:"seed,omitempty"`
	Reps    int   `json:"reps,omitempty"`  // the trigger is repeated (reps+1 times) before anything is delivered: a user typing several lines
	Other   int   `json:"other,omitempty"` // 1: the further triggers come from the other party (both sides start, one of them a little later)
	Frag    int   `json:"frag,omitempty"`  // fragment size of both parties (0: none): every handshake message travels in pieces
	Tags    bool  `json:"tags,omitempty"`  // both clients have persisted instance tags and set them before anything happens
}

func verPol(v int) int {
	switch v {
	case 2:
		return sim.PolV2
	case 3:
		return sim.PolV3
	}
	return sim.PolV2 | sim.PolV3
}

// runAKE executes the case; it returns the outcome and the positions at which an alternative choice existed.
func runAKE(c *AKECase) (*sim.Outcome, []int, []int) {
	o := &sim.Outcome{}
	extra := 0
	if c.Trigger == 5 {
		extra = sim.PolWSStart
	}
	switch c.Trigger % 5 {
	case 1:
		extra = sim.PolSendWS | sim.PolWSStart
	case 2:
		extra = sim.PolErrStart
	case 3:
		extra = sim.PolRequire
	}
	cfg := SessCfg{SeedA: 1500 + 2*uint64(c.Seed), SeedB: 1601 + 2*uint64(c.Seed), KeyA: 0, KeyB: 3}
	cfg.FragA, cfg.FragB = c.Frag, c.Frag
	s := newSess(&SessScript{Cfg: cfg, PolA: verPol(c.VA) | extra, PolB: verPol(c.VB) | extra}, o)
	w := s.W
	if c.Tags {
		w.P[0].C.InitializeInstanceTag(0x0a0a0a01)
		w.P[1].C.InitializeInstanceTag(0x0b0b0b02)
		o.Class("instance-tags-persisted")
	}
	if c.Frag > 0 {
		o.Class("handshake-in-pieces")
	}
	pre := c.Pre % 5
	if c.Trigger%5 == 4 {
		pre = 1
	}
	if pre != 0 {
		if !s.Handshake(0) {
			o.Discard = true
			return o, nil, nil
		}
		s.Exec(SOp{K: "pp", W: 0, I: 0, L: 3})
		switch pre {
		case 1:
			w.AgeClock(0, 3*time.Minute)
			w.AgeClock(1, 3*time.Minute)
		case 2:
			tag := w.P[1].C.GetOurInstanceTag()
			w.P[1] = sim.NewParty(sim.PartyOpts{Name: "B", Seed: cfg.SeedB + 5000, Pol: verPol(c.VB) | extra, KeyI: cfg.KeyB})
			// a restarted client keeps its instance tag (clients persist it per account, as libotr does)
			w.P[1].C.InitializeInstanceTag(tag)
			s.nDraw[1] = 0
			w.AgeClock(0, 3*time.Minute)
		case 3, 4:
			// one side ends the session; the other learns of it; the next start follows at once (no time passes)
			w.End(pre - 3)
			s.Exec(SOp{K: "flush"})
		}
		w.Q[0], w.Q[1] = nil, nil
	}
	// a refresh starts from a session: only a new session id shows that the exchange was completed
	oldSSID := [2][8]byte{w.P[0].C.GetSSID(), w.P[1].C.GetSSID()}
	wasEnc := [2]bool{w.P[0].C.IsEncrypted(), w.P[1].C.IsEncrypted()}
	first := [2][]byte{}
	starters := []int{c.Who}
	if c.Who >= 2 {
		starters = []int{0, 1}
	}
	queued := map[int]string{}
	issued := [2]bool{}
	repeated := 0
	extras := c.Reps % 3 // further triggers by the first starter while the exchange is under way, issued where the choice vector says 2
	trigger := func(p int) bool {
		if w.P[p].C.IsEncrypted() && (c.Trigger%5 == 1 || c.Trigger%5 == 3) {
			// these triggers are Send calls: from an encrypted conversation they produce data messages, not a start
			o.Discard = true
			return false
		}
		if c.Trigger == 5 {
			// the peer's client is another implementation: its tagged text names the versions it speaks the way the
			// specification writes them, with groups this library does not know (version 1, a later version) before or
			// after the ones it does; the receiver takes up the tag and the exchange runs with the real peer
			v1, v4 := ref.WSV1, []byte("\x20\x20\x09\x09\x20\x09\x20\x20")
			forms := [][][]byte{{v1, ref.WSV2, ref.WSV3}, {v1, ref.WSV2}, {v1, ref.WSV3}, {v4, ref.WSV3}, {v4, ref.WSV2, ref.WSV3}, {ref.WSV2, v4, ref.WSV3}, {ref.WSV3, v4}, {ref.WSV2, ref.WSV3, v1}}
			in := append([]byte("good morning"), ref.WSBase...)
			for _, g := range forms[c.Seed%len(forms)] {
				in = append(in, g...)
			}
			allowed := func(v, ver int) bool { return v == ver || v == 23 }
			mine, theirs := c.VA, c.VB
			if p == 1 {
				mine, theirs = c.VB, c.VA
			}
			chosen := 0
			for _, g := range forms[c.Seed%len(forms)] {
				for ver, tag := range map[int][]byte{2: ref.WSV2, 3: ref.WSV3} {
					if bytes.Equal(g, tag) && allowed(mine, ver) && ver > chosen {
						chosen = ver
					}
				}
			}
			if chosen == 0 || !allowed(theirs, chosen) {
				// no version of the tag is one this party allows (nothing to start), or the real peer does not speak it
				o.Discard = true
				return false
			}
			cr := w.Receive(p, in)
			if len(cr.Out) == 0 {
				o.Fail("C07/no-start", "a tagged text offering version %d among others (form %d: groups for versions this library does not know before or after it) reached a party that allows it and starts on tags: no D-H Commit was sent", chosen, c.Seed%len(forms))
				return false
			}
			o.Class(fmt.Sprintf("foreign-tag-form-%d", c.Seed%len(forms)))
			return true
		}
		switch c.Trigger % 5 {
		case 0, 4:
			if repeated > 0 || issued[p] {
				// the user asks again after more than a minute (an earlier repeat would be taken for an echo and ignored)
				w.AgeClock(0, 3*time.Minute)
				w.AgeClock(1, 3*time.Minute)
			}
			issued[p] = true
			w.Query(p)
		case 1:
			if cs := w.Send(p, []byte("hello there")); cs.Err != nil {
				// a finished conversation refuses to send until End() is called: no start happened
				o.Discard = true
				return false
			}
		case 2:
			w.Receive(p, []byte("?OTR Error: you sent something unreadable"))
		case 3:
			t := s.Text(p, 5, 0)
			if cs := w.Send(p, t); cs.Err != nil {
				o.Discard = true
				return false
			}
			queued[p] = string(t)
		}
		if len(w.Q[p]) > 0 {
			first[p] = w.Q[p][0].Data
		}
		return true
	}
	for _, p := range starters {
		if !trigger(p) {
			return o, nil, nil
		}
	}
	// deliver until quiescence, following the choice vector
	var taken, open []int
	awaiting := [2]bool{}
	collision := false
	var delivered [2][]string
	for steps := 0; w.Pending() > 0; steps++ {
		if steps >= 200 && c.Frag == 0 || steps >= 20000 {
			return o.Fail("C07/no-quiescence", "no quiescence after %d deliveries", steps), taken, open
		}
		d := 0
		both := len(w.Q[0]) > 0 && len(w.Q[1]) > 0
		if both || extras > 0 {
			pos := len(taken)
			ch := 0
			if len(w.Q[0]) == 0 {
				ch = 1
			}
			if pos < len(c.Choices) {
				ch = c.Choices[pos] % 3
			} else {
				open = append(open, pos)
			}
			if ch == 2 && extras == 0 || ch < 2 && len(w.Q[ch]) == 0 {
				ch = 0 // not available here: take a queue that has something
				if len(w.Q[0]) == 0 {
					ch = 1
				}
			}
			taken = append(taken, ch)
			if ch == 2 {
				extras--
				tp := starters[0]
				if c.Other == 1 {
					tp = 1 - tp
				}
				if trigger(tp) {
					repeated++
				}
				o.Discard = false
				continue
			}
			d = ch
		} else if len(w.Q[0]) == 0 {
			d = 1
		}
		wire := w.Q[d][0].Data
		rcv := 1 - d
		if t, _ := typeOf(wire); t == ref.TypeDHCommit && awaiting[rcv] {
			collision = true
		} else if t == ref.TypeDHKey {
			awaiting[rcv] = false
		}
		cc, _ := s.DeliverQ(d, 0)
		if cc.HasPl {
			delivered[rcv] = append(delivered[rcv], string(cc.Plain))
		}
		for _, m := range cc.Out {
			if t, _ := typeOf(m); t == ref.TypeDHCommit {
				awaiting[rcv] = true
			}
		}
	}
	a, b := w.P[0].C, w.P[1].C
	fail := func(sig, f string, args ...interface{}) *sim.Outcome {
		if collision {
			sig = "C07/dhcommit-collision"
		}
		return o.Fail(sig, f, args...)
	}
	desc := fmt.Sprintf("trigger %d started by %d in pre-state %d, versions %d/%d, schedule %v (2 = a further trigger, by the other side: %v)", c.Trigger%5, c.Who, pre, c.VA, c.VB, taken, c.Other == 1)
	if !a.IsEncrypted() || !b.IsEncrypted() {
		return fail("C07/no-completion", "the network is quiet but A encrypted=%v, B encrypted=%v (%s; crossing D-H Commits: %v)", a.IsEncrypted(), b.IsEncrypted(), desc, collision), taken, open
	}
	for p, cv := range []interface{ GetSSID() [8]byte }{a, b} {
		if wasEnc[p] && cv.GetSSID() == oldSSID[p] {
			return fail("C07/no-completion", "the network is quiet and %s is still in the session it was in before the exchange was started (SSID %x): the refresh did not take place (%s)", w.P[p].Name, oldSSID[p], desc), taken, open
		}
	}
	if a.GetSSID() != b.GetSSID() {
		return fail("C07/different-sessions", "both sides are encrypted but in different sessions (%s)", desc), taken, open
	}
	for p, t := range queued {
		found := false
		for _, got := range delivered[1-p] {
			if got == t {
				found = true
			}
		}
		if !found {
			return fail("C07/queued-text-lost", "the text whose Send started the exchange was not delivered after it completed (%s)", desc), taken, open
		}
	}
	for d := 0; d < 2; d++ {
		t := s.Text(d, 6, 0)
		s.Send(d, t)
		var got []byte
		for n := 0; n < 20000 && w.Pending() > 0; n++ {
			dir := d
			if len(w.Q[dir]) == 0 {
				dir = 1 - d
			}
			cc, _ := s.DeliverQ(dir, 0)
			if cc.Who == 1-d && cc.HasPl {
				got = cc.Plain
			}
		}
		if !bytes.Equal(got, t) {
			return fail("C07/probe", "both sides report the same session but a probe text from %s did not arrive (%s)", w.P[d].Name, desc), taken, open
		}
	}
	if collision {
		o.Class("crossing-commits-completed")
	}
	o.Class(fmt.Sprintf("trigger%d-who%d-pre%d", c.Trigger%5, c.Who, pre))
	if repeated > 0 && c.Other == 1 {
		o.Class("other-side-starts-later")
	} else if repeated > 0 {
		o.Class(fmt.Sprintf("trigger-repeated-%d", repeated))
	}
	// both directions had messages in flight at the same moment: some choice was actually made
	o.NonTrivial = len(taken) > 0
	return o, taken, open
}

func init() {
	reg("C07schedules", func(c *AKECase) *sim.Outcome { o, _, _ := runAKE(c); return o })
	reg("C07random", func(c *AKECase) *sim.Outcome { o, _, _ := runAKE(c); return o })
}

var verPairs = [][2]int{{3, 3}, {2, 2}, {23, 23}, {23, 3}, {2, 23}, {3, 23}, {23, 2}}

// TestProp_C07_Schedules enumerates every interleaving (DFS by re-execution) for each start pattern.
func TestProp_C07_Schedules(t *testing.T) {
	si, sn := sim.Shard()
	idx := 0
	pairs := verPairs
	mixedFrom := 3 // in the quick tier the pairs with unequal policies run the plain start patterns only
	if sim.Thorough() {
		mixedFrom = len(verPairs)
	}
	budget := 60
	if sim.Thorough() {
		budget = 600
	}
	exhaustive := true
	for vi, vp := range pairs {
		for trig := 0; trig < 4; trig++ {
			for who := 0; who < 3; who++ {
				for pre := 0; pre < 5; pre++ {
					for round := 0; round < 4; round++ {
						if vi >= mixedFrom && (round > 0 || pre > 1) {
							continue
						}
						reps := round
						other := 0
						if round == 3 {
							// both sides start, the second one at any later point of the schedule (its own trigger, once)
							if who == 2 || pre == 2 || !sim.Thorough() && pre > 1 {
								continue
							}
							reps, other = 1, 1
						}
						// reps > 0: the user sends further texts while the exchange is under way. Judged only for Send under
						// required encryption, where every such Send is itself one of the starts the statement lists (the
						// conversation is still plaintext and answers with another query); see DESIGN.md §10 for tagged sends
						if reps > 0 && other == 0 && (trig != 3 && trig != 0 || who == 2 || pre == 2 || !sim.Thorough() && (reps > 1 || pre > 1) || reps > 1 && pre != 0) {
							continue
						}
						idx++
						if idx%sn != si {
							continue
						}
						stack := [][]int{nil}
						n := 0
						for len(stack) > 0 {
							if n >= budget || other == 1 && n >= 100 {
								// (the later start multiplies the schedules by the number of points it can happen at: sampled
								// depth-first up to a bound of its own, so that the thorough tier stays within its time)
								exhaustive = false
								break
							}
							prefix := stack[len(stack)-1]
							stack = stack[:len(stack)-1]
							c := &AKECase{VA: vp[0], VB: vp[1], Trigger: trig, Who: who, Pre: pre, Reps: reps, Other: other, Choices: prefix}
							_, taken, open := runAKE(c)
							c.Choices = taken
							sim.Judge(t, "C07schedules", c)
							n++
							for _, pos := range open {
								stack = append(stack, append(append([]int{}, taken[:pos]...), 1))
								if reps > 0 {
									stack = append(stack, append(append([]int{}, taken[:pos]...), 2))
								}
							}
						}
						sim.Count("C07schedules", fmt.Sprintf("schedules-trigger%d-who%d-pre%d-reps%d-other%d", trig, who, pre, reps, other), n)
					}
				}
			}
		}
	}
	// every handshake message in pieces, between clients that have persisted their instance tags (a first piece is
	// addressed to nobody in particular): the plain start patterns, a handful of schedules each
	for _, vp := range pairs[:mixedFrom] {
		for trig := 0; trig < 4; trig++ {
			for who := 0; who < 2; who++ { // (one starter: crossing commits, the open finding, are recognised on whole messages only)
				for _, frag := range []int{70, 300} {
					idx++
					if idx%sn != si {
						continue
					}
					stack := [][]int{nil}
					for n := 0; len(stack) > 0 && n < 6; n++ {
						prefix := stack[len(stack)-1]
						stack = stack[:len(stack)-1]
						c := &AKECase{VA: vp[0], VB: vp[1], Trigger: trig, Who: who, Frag: frag, Tags: true, Choices: prefix}
						_, taken, open := runAKE(c)
						c.Choices = taken
						sim.Judge(t, "C07schedules", c)
						for _, pos := range open {
							if pos%7 == 3 {
								stack = append(stack, append(append([]int{}, taken[:pos]...), 1))
							}
						}
					}
				}
			}
		}
	}
	// started by a tag another implementation wrote: every form x either receiver x version policies x every schedule
	for _, vp := range pairs[:mixedFrom] {
		for form := 0; form < 8; form++ {
			for who := 0; who < 2; who++ {
				idx++
				if idx%sn != si {
					continue
				}
				stack := [][]int{nil}
				for n := 0; len(stack) > 0 && n < budget && n < 100; n++ {
					prefix := stack[len(stack)-1]
					stack = stack[:len(stack)-1]
					c := &AKECase{VA: vp[0], VB: vp[1], Trigger: 5, Who: who, Seed: form, Choices: prefix}
					_, taken, open := runAKE(c)
					c.Choices = taken
					sim.Judge(t, "C07schedules", c)
					for _, pos := range open {
						stack = append(stack, append(append([]int{}, taken[:pos]...), 1))
					}
				}
			}
		}
	}
	sim.MarkCompleted("C07schedules", exhaustive)
}

func TestProp_C07_Random(t *testing.T) {
	defer sim.MarkCompleted("C07random", false)
	rapid.Check(t, func(rt *rapid.T) {
		vp := rapid.SampledFrom(verPairs).Draw(rt, "versions")
		c := &AKECase{VA: vp[0], VB: vp[1], Trigger: rapid.IntRange(0, 3).Draw(rt, "trigger"), Who: rapid.IntRange(0, 2).Draw(rt, "who"), Pre: rapid.IntRange(0, 4).Draw(rt, "pre"), Other: rapid.IntRange(0, 1).Draw(rt, "other"), Reps: 0, // further triggers while the exchange is under way are "further user action", which the statement excludes (see DESIGN.md §10)
			Choices: rapid.SliceOfN(rapid.IntRange(0, 2), 0, 20).Draw(rt, "choices"), Seed: rapid.IntRange(0, 50).Draw(rt, "seed")}
		c.Reps = c.Other // (one further trigger, by the other side, where the choice vector says 2)
		c.Frag = rapid.SampledFrom([]int{0, 0, 0, 0, 0, 0, 0, 0, 70, 300}).Draw(rt, "frag")
		c.Tags = rapid.Bool().Draw(rt, "tags")
		if c.Who == 2 || c.Other == 1 {
			c.Frag = 0 // (crossing commits, the open finding, are recognised on whole messages only)
		}
		sim.Judge(rt, "C07random", c)
	})
}

// TestKnown_C07_Collision is the witness of the open finding C07/dhcommit-collision.
func TestKnown_C07_Collision(t *testing.T) {
	c := &AKECase{VA: 3, VB: 3, Trigger: 0, Who: 2, Choices: []int{0, 1}}
	o, _, _ := runAKE(c)
	switch {
	case o.Violation != "" && o.Sig == "C07/dhcommit-collision":
		fmt.Println("WITNESS-FAILS C07/dhcommit-collision:", o.Violation)
	case o.Violation != "":
		fmt.Println("WITNESS-OTHER", o.Sig, o.Violation)
		t.Fatalf("witness failed differently: %s", o.Sig)
	default:
		fmt.Println("WITNESS-PASSES C07/dhcommit-collision")
	}
}
