package props

import (
	"bytes"
	"fmt"
	"testing"

	"github.com/coyim/otr3"
	"pgregory.net/rapid"

	"verif/harness/ref"
	"verif/harness/sim"
)

// ---- C16: version and policy negotiation; untouched pass-through of plain text ----

// NegCase is one negotiation / pass-through situation on fresh conversations.
type NegCase struct {
	PolA  int    `json:"pa"`
	PolB  int    `json:"pb"`
	Form  int    `json:"form"` // 0 peer-built query, 1 crafted query, 2 whitespace tag, 3 first D-H Commit, 4 no-version pass-through, 5 plain text
	Offer string `json:"offer,omitempty"`
	Tags  []int  `json:"tags,omitempty"` // version tags after the base tag (1,2,3; 9 = unknown group)
	Text  []byte `json:"text,omitempty"`
	Pos   int    `json:"pos,omitempty"`
	V     int    `json:"v,omitempty"`
}

func allowedSet(pol int) map[int]bool {
	return map[int]bool{2: pol&sim.PolV2 != 0, 3: pol&sim.PolV3 != 0}
}

func best(offered map[int]bool, pol int) int {
	a := allowedSet(pol)
	for _, v := range []int{3, 2} {
		if offered[v] && a[v] {
			return v
		}
	}
	return 0
}

// versionsOn returns the protocol versions carried by the encoded messages / fragments in out (0 for other kinds).
func versionsOn(out [][]byte, asm *ref.Reassembler) []int {
	var vs []int
	for _, m := range out {
		w := m
		if f, ok := ref.ParseFragment(m); ok {
			whole, done := asm.Add(f)
			if !done {
				continue
			}
			w = whole
		}
		if raw, ok := ref.Dearmor(w); ok {
			if h, err := ref.ParseHeader(raw); err == nil {
				vs = append(vs, int(h.Version))
				continue
			}
			vs = append(vs, -1)
		}
	}
	return vs
}

func typeOf(wire []byte) (byte, int) {
	if raw, ok := ref.Dearmor(wire); ok {
		if h, err := ref.ParseHeader(raw); err == nil {
			return h.Type, int(h.Version)
		}
	}
	return 0, 0
}

func wsTag(tags []int) []byte {
	out := append([]byte{}, ref.WSBase...)
	for _, t := range tags {
		switch t {
		case 1:
			out = append(out, ref.WSV1...)
		case 2:
			out = append(out, ref.WSV2...)
		case 3:
			out = append(out, ref.WSV3...)
		default:
			out = append(out, []byte("\t\t  \t\t  ")...) // an 8-byte group that is no known version
		}
	}
	return out
}

func runNeg(c *NegCase) *sim.Outcome {
	o := &sim.Outcome{}
	w := sim.NewWorld(sim.PartyOpts{Seed: 1300, Pol: c.PolA, KeyI: 0}, sim.PartyOpts{Seed: 1401, Pol: c.PolB, KeyI: 3})
	a, b := w.P[0], w.P[1]
	var asm [2]ref.Reassembler
	// completes the exchange and checks that every message carries version v and both end up encrypted
	finish := func(v int, what string) {
		for n := 0; n < 40 && w.Pending() > 0; n++ {
			d := n % 2
			if len(w.Q[d]) == 0 {
				d = 1 - d
			}
			cc := w.Deliver(d, 0)
			for _, ver := range versionsOn(cc.Out, &asm[cc.Who]) {
				if ver != v {
					o.Fail("C16/wrong-version-emitted", "%s: negotiated version is %d but %s emitted a message of version %d", what, v, w.P[cc.Who].Name, ver)
					return
				}
			}
		}
		if !a.C.IsEncrypted() || !b.C.IsEncrypted() {
			o.Fail("C16/no-session", "%s: both sides allow version %d but the exchange did not complete", what, v)
			return
		}
		// data messages carry the version too
		for d := 0; d < 2; d++ {
			cc := w.Send(d, []byte("x"))
			for _, ver := range versionsOn(cc.Out, &asm[d]) {
				if ver != v {
					o.Fail("C16/wrong-version-emitted", "%s: data message of version %d in a version %d session", what, ver, v)
				}
			}
		}
	}
	// expectCommit judges the responder's reaction to an offer
	expectCommit := func(cc *sim.Call, want int, what string) bool {
		var types []string
		for _, m := range cc.Out {
			t, v := typeOf(m)
			types = append(types, fmt.Sprintf("%02x/v%d", t, v))
		}
		if want == 0 {
			if len(cc.Out) > 0 {
				o.Fail("C16/replied-without-common-version", "%s: no offered version is allowed by the receiver's policy, yet it replied with %v", what, types)
				return false
			}
			return true
		}
		if len(cc.Out) != 1 {
			o.Fail("C16/no-commit", "%s: expected one D-H Commit of version %d, got %v (err=%v)", what, want, types, cc.Err)
			return false
		}
		if t, v := typeOf(cc.Out[0]); t != ref.TypeDHCommit || v != want {
			o.Fail("C16/wrong-version", "%s: expected a D-H Commit of version %d, got type %02x version %d", what, want, t, v)
			return false
		}
		return true
	}
	switch c.Form % 9 {
	case 8:
		// both allow versions 2 and 3; a full query has started a version 3 exchange; a second query that offers version
		// 2 only arrives at either party after k messages. Whether it is ignored (too soon after the first) or answered,
		// the parties must end up in one session of a version both allow, and text must flow
		if c.PolA&3 != 3 || c.PolB&3 != 3 || c.PolA&sim.PolRequire != 0 || c.PolB&sim.PolRequire != 0 {
			o.Discard = true
			return o
		}
		w.Query(0)
		for k := 0; k < c.Pos%6 && w.Pending() > 0; k++ {
			d := k % 2
			if len(w.Q[d]) == 0 {
				d = 1 - d
			}
			w.Deliver(d, 0)
		}
		late := []string{"?OTRv2?", "?OTR?v2?", "?OTRv2"}[c.V%3]
		w.Receive(c.V/3%2, []byte(late))
		w.Flush(200)
		var committed [2]bool
		for _, wr := range w.Log {
			if t, _ := typeOf(wr.Data); t == ref.TypeDHCommit {
				committed[wr.From] = true
			}
		}
		if committed[0] && committed[1] && (!a.C.IsEncrypted() || !b.C.IsEncrypted()) {
			// both sides ended up sending a D-H Commit: the crossing-commits situation of the open finding C07/dhcommit-collision
			o.Discard = true
			o.Class("crossing-commits")
			return o
		}
		if !a.C.IsEncrypted() || !b.C.IsEncrypted() {
			return o.Fail("C16/no-session", "a second query (%q) reached %s after %d messages of a version 3 exchange; the network is quiet and A encrypted=%v, B encrypted=%v", late, w.P[c.V/3%2].Name, c.Pos%6, a.C.IsEncrypted(), b.C.IsEncrypted())
		}
		for d := 0; d < 2; d++ {
			t := []byte(fmt.Sprintf("after the late query %d", d))
			w.Send(d, t)
			got := false
			for _, c2 := range w.Flush(50) {
				if c2.Who == 1-d && bytes.Equal(c2.Plain, t) {
					got = true
				}
			}
			if !got {
				return o.Fail("C16/no-session", "after a late query for another version both sides report encrypted but a text from %s did not arrive", w.P[d].Name)
			}
		}
		o.Class(fmt.Sprintf("late-query-at-step-%d", c.Pos%6))
		o.NonTrivial = true
	case 7:
		// a message of a forbidden version arrives while an exchange is under way or a session exists
		v := best(allowedSet(c.PolA), c.PolB)
		u := 5 - v
		if v == 0 || allowedSet(c.PolB)[u] || c.PolB&sim.PolRequire != 0 || c.PolA&sim.PolRequire != 0 {
			o.Discard = true
			return o
		}
		w.Query(0)
		for k := 0; k < c.Pos%6 && w.Pending() > 0; k++ {
			d := k % 2
			if len(w.Q[d]) == 0 {
				d = 1 - d
			}
			w.Deliver(d, 0)
		}
		rr := sim.NewRand(79)
		rnd := func(n int) []byte { x := make([]byte, n); rr.Read(x); return append([]byte{}, x...) }
		var in []byte
		what := ""
		if c.V%4 >= 2 {
			// a one-piece fragment in the framing of the forbidden version, carrying a text
			st, rt := uint32(0x4711), uint32(0)
			if b.C.IsEncrypted() {
				st, rt = b.C.GetTheirInstanceTag(), b.C.GetOurInstanceTag()
			}
			in, what = ref.MakeFragment(u == 3, st, rt, 1, 1, []byte("text inside a fragment")), fmt.Sprintf("a fragment in version %d framing", u)
			if c.V%4 == 3 {
				in = ref.MakeFragment(u == 3, st, rt, 1, 1, []byte("?OTRv"+fmt.Sprint(v)+"?"))
			}
		} else if c.V%2 == 0 {
			in, what = ref.NewParty(uint16(u), refKey(1), rnd).StartAKE(), fmt.Sprintf("a genuine version %d D-H Commit", u)
		} else {
			// the layout of the version in use, labelled with the forbidden one
			raw, _ := ref.Dearmor(ref.NewParty(uint16(v), refKey(1), rnd).StartAKE())
			raw[1] = byte(u)
			if v == 3 {
				// addressed correctly, so that nothing but the version speaks against it
				copy(raw[7:11], ref.PutU32(nil, b.C.GetOurInstanceTag()))
			}
			in, what = ref.Armor(raw), fmt.Sprintf("a D-H Commit in version %d layout labelled version %d", v, u)
		}
		encBefore := b.C.IsEncrypted()
		before := len(w.Q[1])
		cc := w.Receive(1, in)
		if len(cc.Out) != 0 || cc.HasPl || b.C.IsEncrypted() != encBefore {
			return o.Fail("C16/acted-on-forbidden-version", "%s was acted on after %d handshake messages (replies %d, encrypted before %v after %v) although policy %#x forbids that version", what, c.Pos%6, len(cc.Out), encBefore, b.C.IsEncrypted(), c.PolB)
		}
		w.Q[1] = w.Q[1][:before]
		finish(v, "exchange disturbed by a forbidden-version message")
		if o.Violation == "" {
			// and the session carries text both ways
			for d := 0; d < 2; d++ {
				t := []byte(fmt.Sprintf("still here %d", d))
				w.Send(d, t)
				got := false
				for _, c2 := range w.Flush(50) {
					if c2.Who == 1-d && bytes.Equal(c2.Plain, t) {
						got = true
					}
				}
				if !got {
					return o.Fail("C16/forbidden-version-left-a-trace", "after %s was refused, a text sent by %s did not arrive", what, w.P[d].Name)
				}
			}
		}
		o.Class(fmt.Sprintf("forbidden-version-at-step-%d-enc-%v", c.Pos%6, encBefore))
		o.NonTrivial = true
	case 6:
		// end to end in plaintext state: what A's user sends is what B's user reads
		if c.PolA&sim.PolRequire != 0 {
			o.Discard = true
			return o
		}
		cs := w.Send(0, c.Text)
		if cs.Err != nil || len(cs.Out) != 1 || !bytes.HasPrefix(cs.Out[0], c.Text) {
			return o.Fail("C16/plaintext-send", "Send of a %d-byte text in plaintext state (policy %#x) emitted %d messages, the first not starting with the text (err=%v)", len(c.Text), c.PolA, len(cs.Out), cs.Err)
		}
		tagged := len(cs.Out[0]) > len(c.Text)
		if tagged != (c.PolA&sim.PolSendWS != 0 && c.PolA&3 != 0) {
			return o.Fail("C16/plaintext-send", "whitespace tag appended=%v under policy %#x", tagged, c.PolA)
		}
		cc := w.Deliver(0, 0)
		want := c.Text
		if c.PolB&3 == 0 {
			want = cs.Out[0] // OTR disabled at B: even the tag passes through
		}
		if !bytes.Equal(cc.Plain, want) {
			return o.Fail("C16/plaintext-changed", "a %d-byte text sent in plaintext state (sender policy %#x) arrived changed at the peer (policy %#x)", len(c.Text), c.PolA, c.PolB)
		}
		o.Class(fmt.Sprintf("end-to-end-tagged-%v", tagged))
		o.NonTrivial = tagged
	case 0:
		cq := w.Query(0)
		offered := allowedSet(c.PolA)
		want := best(offered, c.PolB)
		if c.PolB&3 == 0 {
			// OTR disabled at the receiver: the query is handed through as text
			cc := w.Deliver(0, 0)
			if !bytes.Equal(cc.Plain, cq.Out[0]) || len(cc.Out) != 0 {
				return o.Fail("C16/passthrough", "a party with no version allowed did not hand a query through unchanged")
			}
			o.Class("query-to-disabled")
			break
		}
		cc := w.Deliver(0, 0)
		if !expectCommit(cc, want, fmt.Sprintf("query %q to policy %#x", cq.Out[0], c.PolB)) {
			return o
		}
		if want != 0 {
			finish(want, "peer-built query")
			o.Class(fmt.Sprintf("negotiated-v%d", want))
		} else {
			o.Class("no-common-version")
		}
		o.NonTrivial = c.PolA != c.PolB
	case 1:
		vs, _ := ref.ParseQuery([]byte(c.Offer))
		offered := map[int]bool{}
		for _, v := range vs {
			offered[v] = true
		}
		want := best(offered, c.PolB)
		cc := w.Receive(1, []byte(c.Offer))
		if c.PolB&3 == 0 {
			if !bytes.Equal(cc.Plain, []byte(c.Offer)) || len(cc.Out) != 0 {
				return o.Fail("C16/passthrough", "a party with no version allowed did not hand %q through unchanged", c.Offer)
			}
			break
		}
		if !expectCommit(cc, want, fmt.Sprintf("crafted query %q to policy %#x", c.Offer, c.PolB)) {
			return o
		}
		o.Class(fmt.Sprintf("crafted-query-v%d", want))
		for v := range offered {
			if v != 2 && v != 3 || !allowedSet(c.PolB)[v] {
				o.NonTrivial = true
			}
		}
	case 2:
		text := c.Text
		pos := c.Pos % (len(text) + 1)
		tag := wsTag(c.Tags)
		in := append(append(append([]byte{}, text[:pos]...), tag...), text[pos:]...)
		offered := map[int]bool{}
		for _, t := range c.Tags {
			offered[t] = true
		}
		cc := w.Receive(1, in)
		if c.PolB&3 == 0 {
			if !bytes.Equal(cc.Plain, in) || len(cc.Out) != 0 {
				return o.Fail("C16/passthrough", "a party with no version allowed changed a whitespace-tagged text")
			}
			break
		}
		if !bytes.Equal(cc.Plain, text) {
			return o.Fail("C16/tag-removal", "tagged text (tag %v at offset %d of %d): Receive returned %q, expected the text with the tag removed %q", c.Tags, pos, len(text), cc.Plain, text)
		}
		want := 0
		if c.PolB&sim.PolWSStart != 0 {
			want = best(offered, c.PolB)
		}
		if !expectCommit(cc, want, fmt.Sprintf("whitespace tag %v to policy %#x", c.Tags, c.PolB)) {
			return o
		}
		o.Class(fmt.Sprintf("whitespace-v%d", want))
		o.NonTrivial = true
	case 3:
		rr := sim.NewRand(77)
		r := ref.NewParty(uint16(c.V), refKey(1), func(n int) []byte { x := make([]byte, n); rr.Read(x); return append([]byte{}, x...) })
		commit := r.StartAKE()
		cc := w.Receive(1, commit)
		allowed := allowedSet(c.PolB)[c.V]
		if c.PolB&3 == 0 {
			if !bytes.Equal(cc.Plain, commit) || len(cc.Out) != 0 {
				return o.Fail("C16/passthrough", "a party with no version allowed did not hand a D-H Commit through unchanged")
			}
			break
		}
		if !allowed {
			if len(cc.Out) != 0 || cc.HasPl {
				return o.Fail("C16/acted-on-forbidden-version", "a D-H Commit of version %d was answered although the policy %#x forbids that version", c.V, c.PolB)
			}
			// and it left no trace: an offer of an allowed version still works
			for _, v := range []int{3, 2} {
				if allowedSet(c.PolB)[v] {
					c2 := w.Receive(1, []byte(fmt.Sprintf("?OTRv%d?", v)))
					if !expectCommit(c2, v, "an allowed offer after a forbidden-version message") {
						return o
					}
					break
				}
			}
			o.Class("forbidden-version-ignored")
			o.NonTrivial = true
			break
		}
		if len(cc.Out) != 1 {
			return o.Fail("C16/no-dhkey", "a D-H Commit of the allowed version %d got %d replies (err=%v)", c.V, len(cc.Out), cc.Err)
		}
		if t, v := typeOf(cc.Out[0]); t != ref.TypeDHKey || v != c.V {
			return o.Fail("C16/wrong-version", "reply to a version %d D-H Commit has type %02x version %d", c.V, t, v)
		}
		o.Class(fmt.Sprintf("commit-v%d-accepted", c.V))
	case 4:
		// no version allowed: everything passes through unchanged, both ways
		nw := sim.NewParty(sim.PartyOpts{Seed: 5, Pol: c.PolA &^ 3, KeyI: 0})
		out, err := nw.C.Send(otr3.ValidMessage(c.Text))
		if err != nil || len(out) != 1 || !bytes.Equal(out[0], c.Text) {
			return o.Fail("C16/passthrough", "Send with no version allowed returned %d messages (err=%v) instead of the input %q", len(out), err, c.Text)
		}
		plain, reply, err := nw.C.Receive(otr3.ValidMessage(c.Text))
		if err != nil || len(reply) != 0 || !bytes.Equal(plain, c.Text) {
			return o.Fail("C16/passthrough", "Receive with no version allowed did not return its input %q unchanged (got %q, %d replies, err=%v)", c.Text, plain, len(reply), err)
		}
		o.Class("disabled-passthrough")
		o.NonTrivial = bytes.Contains(c.Text, []byte("?OTR")) || bytes.Contains(c.Text, ref.WSBase)
	case 5:
		cc := w.Receive(1, c.Text)
		if !bytes.Equal(cc.Plain, c.Text) || len(cc.Out) != 0 || cc.Err != nil {
			return o.Fail("C16/plaintext-changed", "a plain text without OTR markers came back as %q with %d replies (err=%v)", cc.Plain, len(cc.Out), cc.Err)
		}
		if cc.HasPl != (c.Text != nil) && len(c.Text) > 0 {
			return o.Fail("C16/plaintext-changed", "plain text was not returned")
		}
		o.Class("plain-text")
		o.NonTrivial = len(c.Text) > 0
	}
	return o
}

func init() { reg("C16negotiate", runNeg); reg("C16policies", runNeg) }

// plainText generates text free of OTR markers and of the whitespace base tag.
func genPlainNoMarkers(rt *rapid.T, label string) []byte {
	var t []byte
	switch rapid.IntRange(0, 3).Draw(rt, label+"class") {
	case 0:
		t = []byte{}
	case 1:
		t = []byte(rapid.StringOfN(rapid.RuneFrom([]rune("abc XYZ\t.,!?üé\n0")), 0, 60, -1).Draw(rt, label))
	case 2:
		t = rapid.SliceOfN(rapid.ByteRange(1, 255), 0, 80).Draw(rt, label)
	default:
		t = bytes.Repeat([]byte(" \t"), rapid.IntRange(0, 20).Draw(rt, label)) // whitespace-heavy but never the base tag
	}
	t = bytes.ReplaceAll(t, []byte("?OTR"), []byte("?0TR"))
	for bytes.Contains(t, ref.WSBase) {
		t = bytes.Replace(t, ref.WSBase, []byte("................"), 1)
	}
	return t
}

var craftedQueries = []string{"?OTRv2?", "?OTRv3?", "?OTRv23?", "?OTRv32?", "?OTR?", "?OTR?v2?", "?OTR?v3?", "?OTR?v23?", "?OTRv4?", "?OTRv24?", "?OTRv?", "?OTR?v?", "?OTRv22?", "?OTRv1?", "?OTRv234?", "?OTRv2x3?", "?OTRv3? hello"}

func TestProp_C16_Negotiate(t *testing.T) {
	defer sim.MarkCompleted("C16negotiate", false)
	rapid.Check(t, func(rt *rapid.T) {
		c := &NegCase{PolA: genPol(rt, "polA"), PolB: genPol(rt, "polB"), Form: rapid.IntRange(0, 8).Draw(rt, "form")}
		switch c.Form {
		case 6:
			// lengths around allocation size classes matter for buffer reuse
			n := rapid.SampledFrom([]int{0, 1, 30, 200, 256, 257, 260, 288, 290, 300, 512, 513, 520, 540, 600, 1000, 1024, 1025, 2000, 4096, 5000}).Draw(rt, "len") + rapid.IntRange(0, 9).Draw(rt, "delta")
			c.Text = bytes.Repeat([]byte("ab cd."), n/6+1)[:n]
		case 1:
			if rapid.Bool().Draw(rt, "listed") {
				c.Offer = rapid.SampledFrom(craftedQueries).Draw(rt, "offer")
			} else {
				c.Offer = rapid.SampledFrom([]string{"?OTRv", "?OTR?v"}).Draw(rt, "prefix") + rapid.StringOfN(rapid.RuneFrom([]rune("1234590x")), 0, 6, -1).Draw(rt, "digits") + "?"
			}
		case 2:
			c.Text = genPlainNoMarkers(rt, "text")
			c.Tags = rapid.SliceOfN(rapid.SampledFrom([]int{1, 2, 3, 3, 2, 9}), 0, 4).Draw(rt, "tags")
			c.Pos = rapid.IntRange(0, 100).Draw(rt, "pos")
			// the suffix must not start with 8 blanks/tabs (it would read as one more version group)
			pos := c.Pos % (len(c.Text) + 1)
			if rest := c.Text[pos:]; len(rest) >= 8 {
				white := true
				for _, b := range rest[:8] {
					if b != ' ' && b != '\t' {
						white = false
					}
				}
				if white {
					c.Pos = len(c.Text)
				}
			}
		case 3:
			c.V = rapid.SampledFrom([]int{2, 3}).Draw(rt, "v")
		case 7:
			// a version exists that A offers and B allows, and B forbids the other one
			only := rapid.SampledFrom([]int{sim.PolV2, sim.PolV3}).Draw(rt, "only")
			c.PolB = c.PolB&^3 | only
			c.PolA = c.PolA&^sim.PolRequire | only | rapid.SampledFrom([]int{0, 3}).Draw(rt, "also")
			c.PolB &^= sim.PolRequire
			c.Pos = rapid.IntRange(0, 5).Draw(rt, "step")
			c.V = rapid.IntRange(0, 3).Draw(rt, "label")
		case 8:
			c.PolA, c.PolB = c.PolA&^sim.PolRequire|3, c.PolB&^sim.PolRequire|3
			c.Pos = rapid.IntRange(0, 5).Draw(rt, "step")
			c.V = rapid.IntRange(0, 5).Draw(rt, "late")
		case 4:
			if rapid.Bool().Draw(rt, "otrlike") {
				c.Text = []byte(rapid.SampledFrom([]string{"?OTRv23?", "?OTR:AAMDabc.", "?OTR Error: x", "?OTR|1|2,1,1,x,", "hi" + string(ref.WSBase) + string(ref.WSV3), "?OTR"}).Draw(rt, "text"))
			} else {
				c.Text = rapid.SliceOfN(rapid.Byte(), 0, 60).Draw(rt, "text")
			}
		case 5:
			c.Text = genPlainNoMarkers(rt, "text")
		}
		sim.Judge(rt, "C16negotiate", c)
	})
}

// TestProp_C16_Policies: the full 64x64 product of policy sets for the peer-built query, and 64 x every crafted query.
func TestProp_C16_Policies(t *testing.T) {
	si, sn := sim.Shard()
	idx := 0
	for pa := 0; pa < 64; pa++ {
		for pb := 0; pb < 64; pb++ {
			// the bits beyond the versions do not matter to the offerer: sample them in the quick tier
			if !sim.Thorough() && (pa>>2)%4 != (pb>>2)%4 {
				continue
			}
			idx++
			if idx%sn == si {
				sim.Judge(t, "C16policies", &NegCase{PolA: pa, PolB: pb, Form: 0})
			}
		}
	}
	for pb := 0; pb < 64; pb++ {
		for _, q := range craftedQueries {
			idx++
			if idx%sn == si {
				sim.Judge(t, "C16policies", &NegCase{PolB: pb, Form: 1, Offer: q})
			}
		}
		for _, v := range []int{2, 3} {
			idx++
			if idx%sn == si {
				sim.Judge(t, "C16policies", &NegCase{PolB: pb, Form: 3, V: v})
			}
		}
	}
	// a forbidden-version D-H Commit (genuine or relabelled) at every step of a handshake and in the session
	for _, only := range []int{sim.PolV2, sim.PolV3} {
		for _, also := range []int{0, 3} {
			for step := 0; step < 6; step++ {
				for label := 0; label < 4; label++ {
					for _, extra := range []int{0, sim.PolSendWS | sim.PolWSStart, sim.PolErrStart} {
						idx++
						if idx%sn == si {
							sim.Judge(t, "C16policies", &NegCase{PolA: only | also | extra, PolB: only | extra, Form: 7, Pos: step, V: label})
						}
					}
				}
			}
		}
	}
	// a late query for another version at every step of a version 3 exchange, to either party
	for step := 0; step < 6; step++ {
		for late := 0; late < 6; late++ {
			for _, extra := range []int{0, sim.PolErrStart, sim.PolSendWS | sim.PolWSStart} {
				idx++
				if idx%sn == si {
					sim.Judge(t, "C16policies", &NegCase{PolA: 3 | extra, PolB: 3 | extra, Form: 8, Pos: step, V: late})
				}
			}
		}
	}
	sim.MarkCompleted("C16policies", sim.Thorough())
}
