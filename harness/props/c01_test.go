package props

import (
	"bytes"
	"crypto/sha256"
	"fmt"
	"math/big"
	"testing"

	"pgregory.net/rapid"

	"verif/harness/ref"
	"verif/harness/sim"
)

// ---- C01: the key exchange authenticates the peer; both sides agree on the session ----

// C01Script is a generated attack on the key exchange.
type C01Script struct {
	Cfg  SessCfg `json:"cfg"`
	KeyM int     `json:"km"`
	Ops  []SOp   `json:"ops"`
}

type c01run struct {
	s          *Sess
	o          *sim.Outcome
	sc         *C01Script
	m          *ref.Party
	mRand      *sim.Rand
	nMExp      int
	restarted  bool
	recorded   [][]byte   // wires of an earlier AKE between the same long-term keys
	recPubs    []*big.Int // DH public values of that earlier session
	foreign    []*big.Int // DH values put on the wire by the adversary (mutated / degenerate)
	fps        [3][]byte
	lastSeen   [2]string
	touched    bool // an attacker op touched an AKE message that was then delivered
	sigSeen    bool // some party processed a Reveal-Signature / Signature message
	complete   int
	whoIs      [2]int
	mLast      int // the victim of the attacker's most recent exchange of its own
	failedSeen [2]int
	halfDone   [2]bool
}

func ssidOf(s *big.Int) []byte {
	h := sha256.Sum256(append([]byte{0}, ref.PutMPI(nil, s)...))
	return h[:8]
}

// identify finds whose DH value P's session secret was computed with.
// It returns the party index (0,1 honest; 2 attacker) or a negative code with a description.
func (r *c01run) identify(p int) (int, string) {
	ssid := r.s.W.P[p].C.GetSSID()
	var mine [][]byte
	for _, d := range r.s.W.P[p].R.DrawsOfLen(40) {
		mine = append(mine, d.Data)
	}
	try := func(y *big.Int) bool {
		for _, e := range mine {
			if bytes.Equal(ssidOf(ref.DH(y, e)), ssid[:]) {
				return true
			}
		}
		return false
	}
	for x := 0; x < 3; x++ {
		var pubs []*big.Int
		if x < 2 {
			for _, d := range r.s.W.P[x].R.DrawsOfLen(40) {
				pubs = append(pubs, ref.Pub(d.Data))
			}
		} else {
			for _, e := range r.m.Exps {
				pubs = append(pubs, ref.Pub(e))
			}
		}
		for _, y := range pubs {
			if try(y) {
				return x, ""
			}
		}
	}
	for _, y := range []*big.Int{big.NewInt(0), big.NewInt(1), new(big.Int).Sub(ref.P, big.NewInt(1)), ref.P, new(big.Int).Add(ref.P, big.NewInt(1))} {
		if try(y) {
			return -1, fmt.Sprintf("degenerate DH value %s", y.Text(16)[:1]+"…")
		}
	}
	for _, y := range r.recPubs {
		if try(y) {
			return -2, "a DH value of an earlier, recorded session"
		}
	}
	for _, y := range r.foreign {
		if try(y) {
			return -3, "a DH value chosen by the adversary"
		}
	}
	return -4, "no DH value of any live party"
}

// invariant is evaluated after every op.
func (r *c01run) invariant(after string) {
	if r.o.Violation != "" {
		return
	}
	w := r.s.W
	for p := 0; p < 2; p++ {
		c := w.P[p].C
		if !c.IsEncrypted() {
			r.lastSeen[p] = ""
			r.failedSeen[p] = w.P[p].R.Failed
			continue
		}
		ssid := c.GetSSID()
		var fp []byte
		if k := c.GetTheirKey(); k != nil {
			fp = k.Fingerprint()
		}
		_, hi := c.SecureSessionID()
		state := fmt.Sprintf("%x|%x|%d", ssid, fp, hi)
		failed := w.P[p].R.Failed
		if state != r.lastSeen[p] {
			// a session adopted in a call during which the randomness source failed is only half set up (the fresh D-H key
			// pair that ends the exchange could not be drawn): what it sends need not be readable until the next exchange
			r.halfDone[p] = failed > r.failedSeen[p]
		}
		r.failedSeen[p] = failed
		if state == r.lastSeen[p] {
			continue
		}
		r.lastSeen[p] = state
		x, why := r.identify(p)
		if x < 0 {
			sig := map[int]string{-1: "C01/degenerate-dh", -2: "C01/recorded-session-secret", -3: "C01/adversary-dh", -4: "C01/unknown-secret"}[x]
			r.o.Fail(sig, "after %s: %s is encrypted and its SSID %x derives from %s", after, w.P[p].Name, ssid, why)
			return
		}
		r.whoIs[p] = x
		if x == p {
			// reflection: the party talks to itself and reports its own key
			if !bytes.Equal(fp, r.fps[p]) {
				r.o.Fail("C01/wrong-key", "after %s: %s shares the secret with itself but reports another key", after, w.P[p].Name)
			}
			continue
		}
		if !bytes.Equal(fp, r.fps[x]) {
			names := []string{"A", "B", "the attacker M"}
			claimed := "an unknown key"
			for i := 0; i < 3; i++ {
				if bytes.Equal(fp, r.fps[i]) {
					claimed = "the key of " + names[i]
				}
			}
			r.o.Fail("C01/wrong-key", "after %s: %s is encrypted, its SSID %x is shared with %s, but it reports %s as the peer's key", after, w.P[p].Name, ssid, names[x], claimed)
			return
		}
	}
	// agreement
	a, b := w.P[0].C, w.P[1].C
	if a.IsEncrypted() && b.IsEncrypted() && r.whoIs[0] == 1 && r.whoIs[1] == 0 && a.GetSSID() == b.GetSSID() {
		_, ha := a.SecureSessionID()
		_, hb := b.SecureSessionID()
		if ha == hb {
			r.o.Fail("C01/highlight", "after %s: both sides share SSID %x and highlight the same half", after, a.GetSSID())
		}
	}
}

// mDialogue runs the attacker's key exchange against victim v, for at most maxSteps attacker messages.
func (r *c01run) mDialogue(v int, first []byte, maxSteps int) {
	w := r.s.W
	toV := [][]byte{first}
	for steps := 0; len(toV) > 0 && steps < maxSteps; steps++ {
		msg := toV[0]
		toV = toV[1:]
		r.s.Obs.Observe(2, msg)
		before := len(w.Q[v])
		c := w.Receive(v, msg)
		r.noteSig(msg)
		r.invariant("a message of the attacker's own key exchange")
		// the attacker sits on the path: it reads (and removes) what the victim sent in reply
		outs := w.Q[v][before:]
		w.Q[v] = w.Q[v][:before]
		_ = c
		for _, o := range outs {
			_, rep, _ := r.m.Receive(o.Data)
			r.syncM()
			toV = append(toV, rep...)
		}
	}
}

// toVictim delivers an attacker-made message and returns the victim's replies (taken off the network).
func (r *c01run) toVictim(v int, wire []byte) [][]byte {
	w := r.s.W
	before := len(w.Q[v])
	w.Receive(v, wire)
	r.noteSig(wire)
	r.invariant("a message of the degenerate-value attacker")
	var outs [][]byte
	for _, o := range w.Q[v][before:] {
		outs = append(outs, o.Data)
	}
	w.Q[v] = w.Q[v][:before]
	return outs
}

func findType(msgs [][]byte, typ byte) ([]byte, ref.Header) {
	for _, m := range msgs {
		if raw, ok := ref.Dearmor(m); ok {
			if h, err := ref.ParseHeader(raw); err == nil && h.Type == typ {
				return raw[h.Len:], h
			}
		}
	}
	return nil, ref.Header{}
}

// mDegenerate: an attacker who has no exponent at all runs the exchange with a degenerate DH value
// (1, p-1, 0, p+1) and guesses the resulting shared secret (1 or p-1). With twoStep it first sends the
// degenerate value (which must be refused without trace) and then a harmless in-range one.
func (r *c01run) mDegenerate(v int, op SOp) {
	vals := []*big.Int{big.NewInt(1), new(big.Int).Sub(ref.P, big.NewInt(1)), big.NewInt(0), new(big.Int).Add(ref.P, big.NewInt(1))}
	deg := vals[op.X%4]
	guesses := []*big.Int{big.NewInt(1), new(big.Int).Sub(ref.P, big.NewInt(1)), big.NewInt(0)}
	key := r.m.Key
	ver := uint16(r.sc.Cfg.V)
	mtag := uint32(0x7000 + op.X)
	vtag := r.s.W.P[v].C.GetOurInstanceTag()
	if st := r.s.W.P[v].C.GetTheirInstanceTag(); ver == 3 && st >= 0x100 {
		mtag = st // the victim is bound to a peer instance: only messages carrying that tag are looked at
	}
	wrap := func(typ byte, body []byte) []byte {
		return ref.Armor(append(ref.PutHeader(ver, typ, mtag, vtag), body...))
	}
	rnd := func(n int) []byte { b := make([]byte, n); r.mRand.Read(b); return append([]byte{}, b...) }
	if op.F%2 == 0 {
		// attacker sends the commit: g^x := deg
		rr := rnd(16)
		outs := r.toVictim(v, wrap(ref.TypeDHCommit, ref.BuildDHCommit(rr, deg)))
		body, _ := findType(outs, ref.TypeDHKey)
		if body == nil {
			return
		}
		k, _, err := ref.ParseDHKey(body)
		if err != nil {
			return
		}
		for _, g := range guesses {
			keys := ref.DeriveAKE(g)
			b, err := ref.BuildRevealSig(keys, rr, deg, k.Gy, key, key.PubBytes(), 1, &rndR{rnd})
			if err != nil {
				return
			}
			r.toVictim(v, wrap(ref.TypeRevealSig, b))
		}
		return
	}
	// attacker answers the victim's commit: g^y := deg
	outs := r.toVictim(v, []byte(fmt.Sprintf("?OTRv%d?", ver)))
	cb, h := findType(outs, ref.TypeDHCommit)
	if cb == nil {
		return
	}
	vtag = h.Sender
	commit, _, err := ref.ParseDHCommit(cb)
	if err != nil {
		return
	}
	outs = r.toVictim(v, wrap(ref.TypeDHKey, ref.BuildDHKey(deg)))
	if op.L%2 == 1 {
		y := rnd(40)
		outs = append(outs, r.toVictim(v, wrap(ref.TypeDHKey, ref.BuildDHKey(ref.Pub(y))))...)
	}
	rb, _ := findType(outs, ref.TypeRevealSig)
	if rb == nil {
		return
	}
	rv, _, err := ref.ParseRevealSig(rb)
	if err != nil {
		return
	}
	gx, err := ref.OpenCommit(commit, rv.R)
	if err != nil {
		return
	}
	for _, g := range guesses {
		keys := ref.DeriveAKE(g)
		b, err := ref.BuildSignature(keys, deg, gx, key, key.PubBytes(), 1, &rndR{rnd})
		if err != nil {
			return
		}
		r.toVictim(v, wrap(ref.TypeSignature, b))
	}
}

type rndR struct{ f func(int) []byte }

func (r *rndR) Read(b []byte) (int, error) {
	if len(b) == 1 {
		b[0] = 0x55
		return 1, nil
	}
	copy(b, r.f(len(b)))
	return len(b), nil
}

func (r *c01run) syncM() {
	for ; r.nMExp < len(r.m.Exps); r.nMExp++ {
		r.s.Obs.LearnExp(2, r.m.Exps[r.nMExp])
	}
}

func (r *c01run) noteSig(wire []byte) {
	if raw, ok := ref.Dearmor(wire); ok {
		if h, err := ref.ParseHeader(raw); err == nil && (h.Type == ref.TypeRevealSig || h.Type == ref.TypeSignature) {
			r.sigSeen = true
		}
	}
}

func isAKEWire(wire []byte) (ref.Header, []byte, bool) {
	raw, ok := ref.Dearmor(wire)
	if !ok {
		return ref.Header{}, nil, false
	}
	h, err := ref.ParseHeader(raw)
	if err != nil || h.Type == ref.TypeData {
		return h, nil, false
	}
	return h, raw, true
}

// mutateAKE applies mutation (kind X, position L, value F) to the decoded message raw.
func (r *c01run) mutateAKE(h ref.Header, raw []byte, op SOp) []byte {
	out := append([]byte{}, raw...)
	body := h.Len
	switch op.X % 12 {
	case 0:
		out[op.L%len(out)] ^= 1 << uint(op.F%8)
	case 1:
		out[op.L%len(out)] = byte(op.F)
	case 2:
		out = out[:op.L%len(out)]
	case 3:
		out = append(out, byte(op.F), byte(op.L))
	case 4: // version / type
		if op.F%2 == 0 {
			out[1] ^= 1 // 2 <-> 3
		} else {
			out[2] = []byte{ref.TypeDHCommit, ref.TypeDHKey, ref.TypeRevealSig, ref.TypeSignature, ref.TypeData, 0x7f}[op.L%6]
		}
	case 5: // tags
		if h.Version == 3 {
			copy(out[3+4*(op.F%2):], ref.PutU32(nil, []uint32{0, 1, 0xff, 0x100, 0xdeadbeef}[op.L%5]))
		}
	case 6, 7: // D-H Key: replace g^y
		if h.Type == ref.TypeDHKey {
			vals := []*big.Int{big.NewInt(0), big.NewInt(1), new(big.Int).Sub(ref.P, big.NewInt(1)), ref.P, new(big.Int).Add(ref.P, big.NewInt(1)), big.NewInt(2), new(big.Int).Sub(ref.P, big.NewInt(2))}
			v := vals[op.L%len(vals)]
			out = append(append([]byte{}, raw[:body]...), ref.PutMPI(nil, v)...)
			r.foreign = append(r.foreign, v)
		} else {
			out[body+op.L%(len(out)-body)] ^= 0x40
		}
	case 8: // length prefixes of the first DATA/MPI field
		if len(out) >= body+4 {
			lens := []uint32{0, 1, 0x7fffffff, 0xffffffff}
			copy(out[body:], ref.PutU32(nil, lens[op.L%4]))
		}
	case 9: // the MAC (last 20 bytes of Reveal-Signature / Signature)
		if len(out) > 20 {
			out[len(out)-1-op.L%20] ^= 1 << uint(op.F%8)
		}
	case 10: // inside the encrypted signature
		if len(out) > body+60 {
			out[body+24+op.L%(len(out)-body-44)] ^= 1 << uint(op.F%8)
		}
	case 11: // swap in the same field of the recorded session's message of that type
		for _, rw := range r.recorded {
			if hh, rr, ok := isAKEWire(rw); ok && hh.Type == h.Type && hh.Version == h.Version {
				n := len(rr)
				if len(out) < n {
					n = len(out)
				}
				from := body + op.L%(n-body)
				copy(out[from:n], rr[from:n])
				break
			}
		}
	}
	return out
}

func newC01(sc *C01Script, o *sim.Outcome) *c01run {
	ss := &SessScript{Cfg: sc.Cfg}
	s := newSess(ss, o)
	r := &c01run{s: s, o: o, sc: sc}
	r.mRand = sim.NewRand(sc.Cfg.SeedA ^ 0x5a5a5a5a)
	rnd := func(n int) []byte { b := make([]byte, n); r.mRand.Read(b); return append([]byte{}, b...) }
	r.m = ref.NewParty(uint16(sc.Cfg.V), refKey(sc.KeyM), rnd)
	r.m.PadFirst, r.m.FirstKeyID = sc.Cfg.RPad, uint32(sc.Cfg.RKid)
	s.Obs.Long[2] = r.m.Key.PubBytes()
	r.fps[0] = ref.Fingerprint(s.Obs.Long[0])
	r.fps[1] = ref.Fingerprint(s.Obs.Long[1])
	r.fps[2] = ref.Fingerprint(s.Obs.Long[2])
	// an earlier session between the same long-term keys, recorded by the adversary
	rc := sc.Cfg
	rc.SeedA, rc.SeedB = sc.Cfg.SeedA+999983, sc.Cfg.SeedB+999983
	rc.SkA, rc.SkB = 0, 0 // (the short-public-value exponents are constants: an earlier session must not share D-H keys with this one)
	rec := newSess(&SessScript{Cfg: rc}, &sim.Outcome{})
	rec.Handshake(0)
	rec.Exec(SOp{K: "send", W: 0, L: 5})
	for _, wr := range rec.W.Log {
		r.recorded = append(r.recorded, wr.Data)
	}
	for p := 0; p < 2; p++ {
		for _, d := range rec.W.P[p].R.DrawsOfLen(40) {
			r.recPubs = append(r.recPubs, ref.Pub(d.Data))
		}
	}
	return r
}

func runC01(sc *C01Script) *sim.Outcome {
	o := &sim.Outcome{}
	r := newC01(sc, o)
	s, w := r.s, r.s.W
	deliver := func(dir, idx int, what string) {
		if len(w.Q[dir]) == 0 {
			return
		}
		idx = idx % len(w.Q[dir])
		wr := w.Q[dir][idx]
		if wr.Tampered {
			r.touched = true
			s.Obs.NoteForeign(wr.Data)
		}
		r.noteSig(wr.Data)
		s.DeliverQ(dir, idx)
		r.invariant(what)
	}
	for si, op := range sc.Ops {
		if o.Violation != "" {
			return o
		}
		who := op.W & 1
		switch op.K {
		case "restart":
			// one side's client is restarted (new conversation object, same long-term key and instance tag) and asks for a
			// new exchange; whatever the other side remembers of earlier sessions must not stand in the way of this one
			if v3conv := sc.Cfg.V == 3; true {
				tag := uint32(0)
				if v3conv && w.P[who].C.IsEncrypted() {
					tag = w.P[who].C.GetOurInstanceTag()
				}
				np := sim.NewParty(sim.PartyOpts{Name: w.P[who].Name, Seed: sc.Cfg.SeedA*5 + uint64(si)*2 + uint64(who) + 424242, Pol: sc.Cfg.pol(), KeyI: w.P[who].KeyI})
				if tag != 0 {
					np.C.InitializeInstanceTag(tag)
				}
				w.P[who] = np
				s.nDraw[who] = 0
				w.Q[who] = nil
				w.AgeClock(1-who, 3*60e9)
				w.Query(who)
				o.Class("client-restarted")
				r.restarted = true
			}
		case "start":
			w.AgeClock(who, 3*60e9)
			if op.I&1 == 1 {
				w.AgeClock(1-who, 3*60e9) // (the peer, too, last saw key-exchange activity more than a minute ago)
			}
			w.Query(who)
		case "dl":
			deliver(who, op.I, "a delivery")
		case "dup":
			s.Exec(op)
		case "drop":
			s.Exec(op)
		case "fault":
			// one read of this party's randomness source, op.X reads from now, fails (an error path taken half way through
			// whatever happens next: an honest exchange, the attacker's exchange, a refresh)
			s.Exec(op)
			r.touched = true
			o.Class("randomness-fault")
		case "mut":
			if len(w.Q[who]) == 0 {
				continue
			}
			i := op.I % len(w.Q[who])
			h, raw, ok := isAKEWire(w.Q[who][i].Data)
			if !ok {
				continue
			}
			cp := *w.Q[who][i]
			cp.Data, cp.Tampered = ref.Armor(r.mutateAKE(h, raw, op)), true
			// the mutated copy is placed in front of (X odd: instead of) the original
			if op.F%3 == 0 {
				w.Q[who][i] = &cp
			} else {
				w.Q[who] = append(w.Q[who][:i:i], append([]*sim.Wire{&cp}, w.Q[who][i:]...)...)
			}
			o.Class(fmt.Sprintf("mut-type%02x-kind%d", h.Type, op.X%12))
		case "talk":
			// ordinary traffic in a session that exists (message counters and key ids move on)
			if w.P[0].C.IsEncrypted() && w.P[1].C.IsEncrypted() && w.P[0].C.GetSSID() == w.P[1].C.GetSSID() {
				w.Q[0], w.Q[1] = nil, nil
				for i := 0; i <= op.I%4; i++ {
					s.Send(who, s.Text(who, 6, 0))
					s.Exec(SOp{K: "flush"})
				}
				o.Class("traffic-before")
			}
		case "injrec":
			wire := r.recorded[op.I%len(r.recorded)]
			if op.F%2 == 1 && sc.Cfg.V == 3 {
				// addressed as if it belonged here: the instance tags the receiver expects (they travel in the clear)
				if raw, ok := ref.Dearmor(wire); ok && len(raw) > 11 {
					st := w.P[who].C.GetTheirInstanceTag()
					if st == 0 {
						st = w.P[1-who].C.GetOurInstanceTag()
					}
					raw = append([]byte{}, raw...)
					copy(raw[3:], ref.PutU32(nil, st))
					copy(raw[7:], ref.PutU32(nil, w.P[who].C.GetOurInstanceTag()))
					wire = ref.Armor(raw)
				}
			}
			r.noteSig(wire)
			r.touched = true
			w.Receive(who, wire)
			r.invariant("an injected message of a recorded session")
			o.Class("cross-session-injection")
		case "mrun", "mpartial":
			// the attacker runs its own exchange with victim `who`, signing with its key and advertising key op.X
			claim := op.X % 3
			r.m.Advertise = s.Obs.Long[claim]
			r.m.State, r.m.TheirTag = ref.StNone, 0
			r.mLast = who
			if st := w.P[who].C.GetTheirInstanceTag(); sc.Cfg.V == 3 && st >= 0x100 && op.L&2 == 0 {
				// a victim that already knows its peer's instance listens to nobody else: the attacker writes that
				// instance's tag into its own messages (tags travel in the clear)
				r.m.OurTag = st
				o.Class("attacker-uses-the-peer-instance-tag")
			}
			steps := 10
			if op.K == "mpartial" {
				steps = 1 + op.L%2
			}
			var first []byte
			role := "commit-sender"
			if op.F%2 == 0 {
				first = r.m.StartAKE()
				r.syncM()
			} else {
				first = r.m.Query()
				role = "responder"
			}
			r.touched = true
			r.mDialogue(who, first, steps)
			o.Class(fmt.Sprintf("impersonate-%s-claim%d-%s", role, claim, map[bool]string{true: "victim-encrypted", false: "victim-plain"}[w.P[who].C.IsEncrypted()]))
		case "mdegen":
			r.touched = true
			r.mDegenerate(who, op)
			o.Class(fmt.Sprintf("degenerate-attacker-role%d-val%d-twostep%v", op.F%2, op.X%4, op.L%2 == 1))
		case "flush":
			for n := 0; n < 400 && w.Pending() > 0 && o.Violation == ""; n++ {
				d := n % 2
				if len(w.Q[d]) == 0 {
					d = 1 - d
				}
				deliver(d, 0, "a delivery")
			}
		}
		r.invariant("op " + op.K)
	}
	if o.Violation != "" {
		return o
	}
	// probe: parties that completed the same exchange can read each other over a clean channel (and with working
	// randomness sources: a fault still armed would make an honest rotation fail)
	w.P[0].R.Heal()
	w.P[1].R.Heal()
	a, b := w.P[0].C, w.P[1].C
	w.Q[0], w.Q[1] = nil, nil
	if a.IsEncrypted() && b.IsEncrypted() && a.GetSSID() == b.GetSSID() && (r.halfDone[0] || r.halfDone[1]) {
		o.Class("session-adopted-while-the-source-failed")
	} else if a.IsEncrypted() && b.IsEncrypted() && a.GetSSID() == b.GetSSID() {
		for k := 0; k < 2; k++ {
			d := (k + len(sc.Ops)) & 1 // either side may be the first to speak in the new session
			t := s.Text(d, 8, 0)
			s.Send(d, t)
			var got []byte
			for len(w.Q[d]) > 0 {
				c, _ := s.DeliverQ(d, 0)
				if c.HasPl {
					got = c.Plain
				}
			}
			if !bytes.Equal(got, t) {
				return o.Fail("C01/probe", "both sides report SSID %x but %s cannot read what %s sends", a.GetSSID(), w.P[1-d].Name, w.P[d].Name)
			}
		}
		o.Class("completed-under-attack")
	}
	// what an encrypted conversation sends is readable for the party whose key and session it reports, and for nobody
	// else: the attacker, who completed exchanges of its own, tries to read one text of each side
	for p := 0; p < 2 && o.Violation == ""; p++ {
		c := w.P[p].C
		if !c.IsEncrypted() {
			continue
		}
		w.Q[0], w.Q[1] = nil, nil
		t := s.Text(p, 8, 0)
		s.Send(p, t)
		var got []byte
		for _, wr := range w.Q[p] {
			if pl, _, err := r.m.Receive(wr.Data); err == nil && pl != nil {
				got = pl
			}
		}
		w.Q[p] = nil
		mReads := bytes.Equal(got, t)
		if r.whoIs[p] == 2 && r.mLast == p && !r.halfDone[p] && r.m.Encrypted && r.m.SSID == c.GetSSID() && !mReads {
			return o.Fail("C01/probe", "%s reports the session %x and the key of M, M completed that exchange, and M cannot read what %s sends", w.P[p].Name, c.GetSSID(), w.P[p].Name)
		}
		if r.whoIs[p] != 2 && mReads {
			return o.Fail("C01/secret-shared-with-someone-else", "%s reports SSID %x and the key of %s, yet the attacker M reads what %s sends with the keys of its own exchange", w.P[p].Name, c.GetSSID(), []string{"A", "B", "M"}[r.whoIs[p]], w.P[p].Name)
		}
		if mReads {
			o.Class("attacker-session-read-by-attacker")
		}
	}
	o.NonTrivial = r.touched && r.sigSeen || r.restarted && a.IsEncrypted() && b.IsEncrypted()
	return o
}

func init() {
	reg("C01attack", runC01)
	reg("C01degenerate", runC01)
	reg("C01stray", runC01)
	reg("C01restart", runC01)
	reg("C01faults", runC01)
	reg("C01sweep", runC01Sweep)
}

func TestProp_C01_Attack(t *testing.T) {
	defer sim.MarkCompleted("C01attack", false)
	kinds := []string{"start", "start", "restart", "talk", "dl", "dl", "dl", "dl", "dl", "dup", "drop", "mut", "mut", "mut", "mut", "injrec", "mrun", "mrun", "mpartial", "mdegen", "mdegen", "flush", "flush", "fault"}
	rapid.Check(t, func(rt *rapid.T) {
		sc := &C01Script{Cfg: genSessCfg(rt), KeyM: rapid.IntRange(0, 5).Draw(rt, "km")}
		sc.Cfg.FragA, sc.Cfg.FragB = 0, 0
		for sc.KeyM == sc.Cfg.KeyA || sc.KeyM == sc.Cfg.KeyB {
			sc.KeyM = (sc.KeyM + 1) % 6
		}
		n := rapid.IntRange(2, 25).Draw(rt, "nops")
		for i := 0; i < n; i++ {
			op := SOp{K: rapid.SampledFrom(kinds).Draw(rt, "k"), W: rapid.IntRange(0, 1).Draw(rt, "w")}
			switch op.K {
			case "dl", "dup", "drop":
				if rapid.IntRange(0, 2).Draw(rt, "fifo") == 0 {
					op.I = rapid.IntRange(0, 4).Draw(rt, "i")
				}
			case "mut":
				op.I = rapid.IntRange(0, 3).Draw(rt, "i")
				op.X = rapid.IntRange(0, 11).Draw(rt, "kind")
				op.L = rapid.IntRange(0, 2000).Draw(rt, "pos")
				op.F = rapid.IntRange(0, 255).Draw(rt, "val")
			case "injrec":
				op.I = rapid.IntRange(0, 8).Draw(rt, "i")
			case "fault":
				op.X = rapid.IntRange(0, 12).Draw(rt, "ahead")
				op.I = rapid.IntRange(0, 1).Draw(rt, "mode")
			case "mdegen":
				op.X = rapid.IntRange(0, 3).Draw(rt, "val")
				op.F = rapid.IntRange(0, 1).Draw(rt, "role")
				op.L = rapid.IntRange(0, 1).Draw(rt, "twostep")
			case "mrun", "mpartial":
				op.X = rapid.IntRange(0, 2).Draw(rt, "claim")
				op.F = rapid.IntRange(0, 1).Draw(rt, "role")
				op.L = rapid.IntRange(0, 3).Draw(rt, "steps")
			}
			sc.Ops = append(sc.Ops, op)
		}
		sim.Judge(rt, "C01attack", sc)
	})
}

// ---- exhaustive sweep: every byte of every handshake message ----

// C01SweepCase: in a benign handshake, message number Msg is preceded by a mutated copy.
type C01SweepCase struct {
	V   int `json:"v"`
	Msg int `json:"msg"` // 0..3: D-H Commit, D-H Key, Reveal Signature, Signature
	Pos int `json:"pos"`
	Op  int `json:"op"` // 0 ^01, 1 ^80, 2 :=00, 3 :=ff, 4 truncate
}

func runC01Sweep(c *C01SweepCase) *sim.Outcome {
	o := &sim.Outcome{}
	sc := &C01Script{Cfg: SessCfg{V: c.V, SeedA: 300, SeedB: 401, KeyA: 0, KeyB: 3}, KeyM: 5}
	r := newC01(sc, o)
	s, w := r.s, r.s.W
	w.Query(0)
	n := -1 // index of AKE messages seen
	for step := 0; step < 40 && w.Pending() > 0 && o.Violation == ""; step++ {
		d := 0
		if len(w.Q[0]) == 0 {
			d = 1
		}
		wr := w.Q[d][0]
		if _, raw, ok := isAKEWire(wr.Data); ok {
			n++
			if n == c.Msg {
				mut := append([]byte{}, raw...)
				if c.Pos >= len(mut) {
					o.Discard = true
					return o
				}
				switch c.Op {
				case 0:
					mut[c.Pos] ^= 0x01
				case 1:
					mut[c.Pos] ^= 0x80
				case 2:
					if mut[c.Pos] == 0 {
						o.Discard = true
						return o
					}
					mut[c.Pos] = 0
				case 3:
					if mut[c.Pos] == 0xff {
						o.Discard = true
						return o
					}
					mut[c.Pos] = 0xff
				case 4:
					mut = mut[:c.Pos]
				}
				fw := ref.Armor(mut)
				s.Obs.NoteForeign(fw)
				r.touched = true
				before := len(w.Q[1-d])
				w.Receive(1-d, fw)
				r.invariant("the mutated copy")
				// replies provoked by the mutated copy travel on as well (the network is reliable)
				_ = before
			}
		}
		r.noteSig(wr.Data)
		s.DeliverQ(d, 0)
		r.invariant("a delivery")
	}
	if o.Violation != "" {
		return o
	}
	if w.P[0].C.IsEncrypted() && w.P[1].C.IsEncrypted() {
		o.Class("completed")
	} else {
		o.Class("not-completed")
	}
	o.Class(fmt.Sprintf("msg%d", c.Msg))
	o.NonTrivial = r.touched
	return o
}

func TestProp_C01_Sweep(t *testing.T) {
	si, sn := sim.Shard()
	step := 1
	if !sim.Thorough() {
		step = 5
	}
	idx := 0
	for _, v := range []int{3, 2} {
		// message lengths from a probe run
		probe := newC01(&C01Script{Cfg: SessCfg{V: v, SeedA: 300, SeedB: 401, KeyA: 0, KeyB: 3}, KeyM: 5}, &sim.Outcome{})
		probe.s.Handshake(0)
		var lens []int
		for _, wr := range probe.s.W.Log {
			if _, raw, ok := isAKEWire(wr.Data); ok {
				lens = append(lens, len(raw))
			}
		}
		for msg, l := range lens {
			if msg > 3 {
				break
			}
			for pos := (msg * 2) % step; pos < l; pos += step {
				for op := 0; op < 5; op++ {
					idx++
					if idx%sn != si {
						continue
					}
					sim.Judge(t, "C01sweep", &C01SweepCase{V: v, Msg: msg, Pos: pos, Op: op})
				}
			}
		}
	}
	sim.MarkCompleted("C01sweep", sim.Thorough())
}

// TestProp_C01_Degenerate enumerates the degenerate-value attacker: 4 values x 2 roles x one/two step x
// victim plaintext/encrypted x both versions.
// TestProp_C01_Stray: every point of a handshake (also one inside a running session) x either receiver x every
// message of a recorded earlier exchange between the same long-term keys, addressed as the receiver expects; then
// the handshake goes on, and the final probe asks whether the two can read each other.
func TestProp_C01_Stray(t *testing.T) {
	si, sn := sim.Shard()
	idx := 0
	for _, v := range []int{3, 2} {
		for starter := 0; starter < 2; starter++ {
			for pre := 0; pre < 2; pre++ {
				for k := 0; k <= 4; k++ {
					for rcv := 0; rcv < 2; rcv++ {
						for j := 0; j < 7; j++ {
							idx++
							if idx%sn != si {
								continue
							}
							sc := &C01Script{Cfg: SessCfg{V: v, SeedA: 720, SeedB: 821, KeyA: 0, KeyB: 3}, KeyM: 5}
							if pre == 1 {
								sc.Ops = append(sc.Ops, SOp{K: "start", W: 1 - starter}, SOp{K: "flush"}, SOp{K: "talk", W: starter, I: 1})
							}
							sc.Ops = append(sc.Ops, SOp{K: "start", W: starter})
							for i := 0; i < k; i++ {
								sc.Ops = append(sc.Ops, SOp{K: "dl", W: (starter + i) & 1})
							}
							sc.Ops = append(sc.Ops, SOp{K: "injrec", W: rcv, I: j, F: 1}, SOp{K: "flush"})
							if (idx/7)%2 == 1 {
								sc.Ops = append(sc.Ops, SOp{K: "flush"}) // (parity decides who speaks first in the probe)
							}
							sim.Judge(t, "C01stray", sc)
						}
					}
				}
			}
		}
	}
	sim.MarkCompleted("C01stray", true)
}

// TestProp_C01_Restart: a session with traffic, then one side's client is restarted and a new exchange follows; either
// side speaks first afterwards.
func TestProp_C01_Restart(t *testing.T) {
	si, sn := sim.Shard()
	idx := 0
	for _, v := range []int{3, 2} {
		for starter := 0; starter < 2; starter++ {
			for who := 0; who < 2; who++ {
				for talker := 0; talker < 2; talker++ {
					for n := 0; n < 4; n++ {
						for first := 0; first < 2; first++ {
							idx++
							if idx%sn != si {
								continue
							}
							sc := &C01Script{Cfg: SessCfg{V: v, SeedA: 740, SeedB: 841, KeyA: 0, KeyB: 3}, KeyM: 5}
							sc.Ops = append(sc.Ops, SOp{K: "start", W: starter}, SOp{K: "flush"}, SOp{K: "talk", W: talker, I: n}, SOp{K: "restart", W: who}, SOp{K: "flush"})
							if (len(sc.Ops)+first)%2 == 1 {
								sc.Ops = append(sc.Ops, SOp{K: "flush"})
							}
							sim.Judge(t, "C01restart", sc)
						}
					}
				}
			}
		}
	}
	sim.MarkCompleted("C01restart", true)
}

// TestProp_C01_Faults: inside a running session between A and B, one read of the victim's randomness source fails
// (read k from now, as an error or a short read) while the attacker, or the honest peer, runs a further key exchange
// with the victim; what the victim reports afterwards must still be the session its keys belong to.
func TestProp_C01_Faults(t *testing.T) {
	si, sn := sim.Shard()
	idx := 0
	for _, v := range []int{3, 2} {
		for vic := 0; vic < 2; vic++ {
			for role := 0; role < 2; role++ {
				for peer := 0; peer < 2; peer++ { // 0: the attacker with its own key, 1: the honest peer refreshes
					for mode := 0; mode < 2; mode++ {
						for k := 0; k < 12; k++ {
							idx++
							if idx%sn != si {
								continue
							}
							sc := &C01Script{Cfg: SessCfg{V: v, SeedA: 760, SeedB: 861, KeyA: 0, KeyB: 3}, KeyM: 5}
							sc.Ops = append(sc.Ops, SOp{K: "start", W: role}, SOp{K: "flush"}, SOp{K: "talk", W: vic, I: 1}, SOp{K: "fault", W: vic, X: k, I: mode})
							if peer == 0 {
								sc.Ops = append(sc.Ops, SOp{K: "mrun", W: vic, X: 2, F: role})
							} else {
								sc.Ops = append(sc.Ops, SOp{K: "start", W: (vic + role) & 1, I: 1}, SOp{K: "flush"})
							}
							sc.Ops = append(sc.Ops, SOp{K: "flush"})
							sim.Judge(t, "C01faults", sc)
						}
					}
				}
			}
		}
	}
	sim.MarkCompleted("C01faults", true)
}

func TestProp_C01_Degenerate(t *testing.T) {
	si, sn := sim.Shard()
	idx := 0
	for _, v := range []int{3, 2} {
		for val := 0; val < 4; val++ {
			for role := 0; role < 2; role++ {
				for two := 0; two < 2; two++ {
					for _, enc := range []bool{false, true} {
						for vic := 0; vic < 2; vic++ {
							idx++
							if idx%sn != si {
								continue
							}
							sc := &C01Script{Cfg: SessCfg{V: v, SeedA: 700, SeedB: 801, KeyA: 0, KeyB: 3}, KeyM: 5}
							if enc {
								sc.Ops = append(sc.Ops, SOp{K: "start"}, SOp{K: "flush"})
							}
							sc.Ops = append(sc.Ops, SOp{K: "mdegen", W: vic, X: val, F: role, L: two}, SOp{K: "flush"})
							sim.Judge(t, "C01degenerate", sc)
						}
					}
				}
			}
		}
	}
	sim.MarkCompleted("C01degenerate", true)
}
