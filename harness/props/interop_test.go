package props

import (
	"bytes"
	"fmt"
	"testing"

	"github.com/coyim/otr3"
	"pgregory.net/rapid"

	"verif/harness/ref"
	"verif/harness/sim"
)

// Mix is a world of one real otr3 conversation (index 0) and one reference party (index 1).
type Mix struct {
	A              *sim.Party
	R              *ref.Party
	RRand          *sim.Rand
	QtoR           [][]byte // otr3 -> ref
	QtoA           [][]byte // ref -> otr3
	Obs            *ref.Observer
	nDraw          int
	nExp           int
	nR             int
	Seen           []*ref.ObsMsg
	Calls          []*sim.Call
	asked          bool
	RefFragPayload int
}

func refKey(i int) *ref.DSAKey {
	k, err := ref.ParseDSAPrivate(sim.PoolKeyBytes(i))
	if err != nil {
		panic(err)
	}
	return k
}

func newMix(cfg SessCfg, polA int) *Mix {
	m := &Mix{}
	m.A = sim.NewParty(sim.PartyOpts{Name: "A", Seed: cfg.SeedA, Pol: cfg.pol() | polA, KeyI: cfg.KeyA, Frag: cfg.FragA, NoErrH: cfg.NoErrH, ShortKeys: cfg.SkA})
	m.RRand = sim.NewRand(cfg.SeedB)
	rnd := func(n int) []byte { b := make([]byte, n); m.RRand.Read(b); return append([]byte{}, b...) }
	m.R = ref.NewParty(uint16(cfg.V), refKey(cfg.KeyB), rnd)
	m.R.PadFirst, m.R.FirstKeyID = cfg.RPad, uint32(cfg.RKid)
	m.Obs = ref.NewObserver(2)
	m.Obs.Long[0] = refKey(cfg.KeyA).PubBytes()
	m.Obs.Long[1] = m.R.Key.PubBytes()
	m.RefFragPayload = cfg.FragB
	return m
}

func (m *Mix) sync() {
	ds := m.A.R.Draws
	for ; m.nDraw < len(ds); m.nDraw++ {
		switch ds[m.nDraw].N {
		case 40:
			m.Obs.LearnExp(0, ds[m.nDraw].Data)
		case 16:
			m.Obs.LearnR(0, ds[m.nDraw].Data)
		}
	}
	for ; m.nExp < len(m.R.Exps); m.nExp++ {
		m.Obs.LearnExp(1, m.R.Exps[m.nExp])
	}
	for ; m.nR < len(m.R.Rs); m.nR++ {
		m.Obs.LearnR(1, m.R.Rs[m.nR])
	}
}

// fromA records and queues otr3 output.
func (m *Mix) fromA(name string, in []byte, plain otr3.MessagePlaintext, out []otr3.ValidMessage, err error, before sim.Counts, encBef bool) *sim.Call {
	c := &sim.Call{Who: 0, Name: name, In: in, Plain: append([]byte{}, plain...), HasPl: plain != nil, Err: err, Before: before, After: m.A.Snap(), EncBef: encBef, EncAft: m.A.C.IsEncrypted()}
	m.sync()
	for _, o := range out {
		b := append([]byte{}, o...)
		c.Out = append(c.Out, b)
		m.QtoR = append(m.QtoR, b)
		m.Seen = append(m.Seen, m.Obs.Observe(0, b))
	}
	for _, e := range c.NewSMP(m.A) {
		if e.Ev == otr3.SMPEventAskForSecret || e.Ev == otr3.SMPEventAskForAnswer {
			m.asked = true
		}
	}
	m.Calls = append(m.Calls, c)
	return c
}

// fromR queues reference output (optionally fragmented).
func (m *Mix) fromR(msgs ...[]byte) {
	m.sync()
	for _, w := range msgs {
		if w == nil {
			continue
		}
		m.Seen = append(m.Seen, m.Obs.Observe(1, w))
		if m.RefFragPayload > 0 && len(w) > m.RefFragPayload && ref.Classify(w) == ref.KEncoded {
			m.QtoA = append(m.QtoA, ref.Split(m.R.Version == 3, m.R.OurTag, m.R.TheirTag, w, m.RefFragPayload)...)
		} else {
			m.QtoA = append(m.QtoA, w)
		}
	}
}

func (m *Mix) ASend(text []byte) *sim.Call {
	b, e := m.A.Snap(), m.A.C.IsEncrypted()
	out, err := m.A.C.Send(otr3.ValidMessage(append([]byte{}, text...)))
	return m.fromA("Send", text, nil, out, err, b, e)
}

func (m *Mix) AReceive(w []byte) *sim.Call {
	b, e := m.A.Snap(), m.A.C.IsEncrypted()
	plain, out, err := m.A.C.Receive(otr3.ValidMessage(append([]byte{}, w...)))
	return m.fromA("Receive", w, plain, out, err, b, e)
}

// DeliverToA delivers the head of the ref->otr3 queue.
func (m *Mix) DeliverToA() *sim.Call {
	if len(m.QtoA) == 0 {
		return nil
	}
	w := m.QtoA[0]
	m.QtoA = m.QtoA[1:]
	return m.AReceive(w)
}

// DeliverToR delivers the head of the otr3->ref queue; returns text and error.
func (m *Mix) DeliverToR() ([]byte, error, bool) {
	if len(m.QtoR) == 0 {
		return nil, nil, false
	}
	w := m.QtoR[0]
	m.QtoR = m.QtoR[1:]
	plain, out, err := m.R.Receive(w)
	m.fromR(out...)
	return plain, err, true
}

// Settle delivers everything FIFO.
func (m *Mix) Settle(onA func(*sim.Call), onR func([]byte, error)) {
	for n := 0; n < 100000 && (len(m.QtoA) > 0 || len(m.QtoR) > 0); n++ {
		if len(m.QtoA) > 0 && (n%2 == 0 || len(m.QtoR) == 0) {
			c := m.DeliverToA()
			if onA != nil {
				onA(c)
			}
		} else {
			p, err, _ := m.DeliverToR()
			if onR != nil {
				onR(p, err)
			}
		}
	}
}

// Establish runs the AKE; starter 0: otr3 sends the query (ref becomes the commit sender), 1: ref queries.
func (m *Mix) Establish(starter int) bool {
	if starter == 0 {
		m.fromA("QueryMessage", nil, nil, []otr3.ValidMessage{m.A.C.QueryMessage()}, nil, m.A.Snap(), false)
	} else {
		m.fromR(m.R.Query())
	}
	m.Settle(nil, nil)
	return m.A.C.IsEncrypted() && m.R.Encrypted
}

// EstablishNoisy is Establish on a network that also delivers, just before every Reveal Signature or Signature message
// of the reference, a copy of it with one byte of its MAC changed: the copy is refused, and the genuine message behind
// it must be accepted as if nothing had happened.
func (m *Mix) EstablishNoisy(starter int) (bool, int) {
	if starter == 0 {
		m.fromA("QueryMessage", nil, nil, []otr3.ValidMessage{m.A.C.QueryMessage()}, nil, m.A.Snap(), false)
	} else {
		m.fromR(m.R.Query())
	}
	noise := 0
	for n := 0; n < 200000 && (len(m.QtoA) > 0 || len(m.QtoR) > 0); n++ {
		if len(m.QtoA) > 0 {
			if t, ver := typeOf(m.QtoA[0]); ver != 0 && (t == ref.TypeRevealSig || t == ref.TypeSignature) {
				if raw, ok2 := ref.Dearmor(m.QtoA[0]); ok2 && len(raw) > 30 {
					bad := append([]byte{}, raw...)
					bad[len(bad)-3] ^= 0x40
					keep := len(m.QtoR)
					m.AReceive(ref.Armor(bad))
					m.QtoR = m.QtoR[:keep] // (whatever the refused copy was answered with is lost)
					noise++
				}
			}
			m.DeliverToA()
		} else {
			m.DeliverToR()
		}
	}
	return m.A.C.IsEncrypted() && m.R.Encrypted, noise
}

// ---- C10 (peer part): two-way interoperation with the reference implementation ----

type IopScript struct {
	Cfg SessCfg `json:"cfg"`
	Ops []SOp   `json:"ops"`
	WS  int     `json:"ws,omitempty"`  // the reference opens with a whitespace-tagged text: 1 v1+v2+v3, 2 v2+v3, 3 v1+v2, 4 v3, 5 v1+v3
	Pad int     `json:"pad,omitempty"` // > 0: the reference starts every record block with a padding record of Pad-1 bytes
	KID int     `json:"kid,omitempty"` // the serial number the reference gives its first D-H key (0: 1 as libotr does; any number > 0 is legal)
}

func runC10Interop(sc *IopScript) *sim.Outcome {
	o := &sim.Outcome{}
	polA := 0
	if sc.WS > 0 {
		polA = sim.PolWSStart
	}
	m := newMix(sc.Cfg, polA)
	if sc.KID > 0 {
		m.R.FirstKeyID = uint32(sc.KID)
	}
	if sc.Pad > 0 {
		m.R.PadFirst = sc.Pad
	}
	if sc.Pad > 0 {
		o.Class("padding-before-other-records")
	}
	if sc.KID > 1 {
		o.Class("reference-numbers-its-keys-from-n")
	}
	if sc.WS > 0 {
		// the specification's tag: the base, then one 8-byte group per version offered, version 1 first
		groups := [][][]byte{nil, {ref.WSV1, ref.WSV2, ref.WSV3}, {ref.WSV2, ref.WSV3}, {ref.WSV1, ref.WSV2}, {ref.WSV3}, {ref.WSV1, ref.WSV3}}[sc.WS%6]
		offered := map[int]bool{}
		text := []byte("good morning")
		in := append(append([]byte{}, text...), ref.WSBase...)
		for _, g := range groups {
			in = append(in, g...)
			switch {
			case bytes.Equal(g, ref.WSV2):
				offered[2] = true
			case bytes.Equal(g, ref.WSV3):
				offered[3] = true
			}
		}
		m.fromR(in)
		c := m.DeliverToA()
		if c == nil || !bytes.Equal(c.Plain, text) {
			return o.Fail("C10/interop-whitespace", "a text carrying the specification's whitespace tag (form %d) was not returned with the tag removed", sc.WS)
		}
		if offered[sc.Cfg.V] {
			if len(c.Out) == 0 {
				return o.Fail("C10/interop-whitespace", "the reference offered version %d by whitespace tag (form %d: version 1 group first where present); otr3, which allows it and starts on tags, did not answer with a D-H Commit", sc.Cfg.V, sc.WS)
			}
			m.Settle(nil, nil)
			if !m.A.C.IsEncrypted() || !m.R.Encrypted {
				return o.Fail("C10/interop-ake", "key exchange started by the reference's whitespace tag did not complete")
			}
			o.Class("started-by-reference-tag")
		} else if len(c.Out) != 0 {
			return o.Fail("C10/interop-whitespace", "otr3 answered a whitespace tag that does not offer its version")
		}
	}
	if !(m.A.C.IsEncrypted() && m.R.Encrypted) && !m.Establish(sc.Cfg.Starter) {
		return o.Fail("C10/interop-ake", "key exchange between otr3 and the reference implementation did not complete (starter %d, v%d): otr3 encrypted=%v ref encrypted=%v ref errors=%v", sc.Cfg.Starter, sc.Cfg.V, m.A.C.IsEncrypted(), m.R.Encrypted, m.R.Errors)
	}
	ssid := m.A.C.GetSSID()
	if ssid != m.R.SSID {
		return o.Fail("C10/interop-ssid", "SSID differs: otr3 %x, reference %x", ssid, m.R.SSID)
	}
	if !bytes.Equal(m.A.C.GetTheirKey().Fingerprint(), ref.Fingerprint(m.R.Key.PubBytes())) {
		return o.Fail("C10/interop-fingerprint", "otr3 reports a peer fingerprint that is not the reference party's")
	}
	if _, hi := m.A.C.SecureSessionID(); (hi == 0) == m.R.HighlightFirst {
		return o.Fail("C10/interop-highlight", "both sides highlight the same SSID half")
	}
	var sentA, sentR, gotA, gotR []string
	n := 0
	onA := func(c *sim.Call) {
		if c == nil {
			return
		}
		if c.Err != nil {
			o.Fail("C10/interop-otr3-rejects", "otr3 rejected a message built by the reference implementation: %v", c.Err)
		}
		if c.HasPl {
			gotA = append(gotA, string(c.Plain))
		}
	}
	onR := func(p []byte, err error) {
		if err != nil {
			o.Fail("C10/interop-ref-rejects", "the reference implementation rejected a message emitted by otr3: %v", err)
		}
		if p != nil {
			gotR = append(gotR, string(p))
		}
	}
	smpSecrets := [][]byte{[]byte("alpha"), []byte("beta"), {}, bytes.Repeat([]byte{0xfe, 0x01}, 600)}
	expectMatch, smpRuns := false, 0
	for _, op := range sc.Ops {
		if o.Violation != "" {
			return o
		}
		switch op.K {
		case "os":
			n++
			t := append([]byte(token(0, n)), filler(op.F, capLen(op.L, sc.Cfg.V, sc.Cfg.FragA), n)...)
			if c := m.ASend(t); c.Err != nil {
				return o.Fail("C10/interop-send", "otr3 Send failed: %v", c.Err)
			}
			sentA = append(sentA, string(t))
		case "rs":
			n++
			t := append([]byte(token(1, n)), filler(op.F, op.L, n)...)
			var tlvs []ref.TLV
			if op.X%3 == 1 {
				tlvs = append(tlvs, ref.TLV{Type: 0, Val: make([]byte, op.X%50)})
			}
			if op.X%3 == 2 {
				tlvs = append(tlvs, ref.TLV{Type: 0x99, Val: []byte("unknown tlv")}, ref.TLV{Type: 0})
			}
			m.fromR(m.R.Send(t, tlvs...))
			sentR = append(sentR, string(t))
		case "do":
			onA(m.DeliverToA())
		case "dr":
			if p, err, ok := m.DeliverToR(); ok {
				onR(p, err)
			}
		case "settle":
			m.Settle(onA, onR)
		case "smpo":
			// otr3 initiates, reference answers automatically
			if !m.A.C.IsEncrypted() {
				continue
			}
			m.Settle(onA, onR)
			m.R.AutoSecret = smpSecrets[op.X&3]
			out, err := m.A.C.StartAuthenticate(op.S, smpSecrets[(op.X>>2)&3])
			c := m.fromA("StartAuthenticate", nil, nil, out, err, m.A.Snap(), true)
			before := len(m.A.SMP)
			m.Settle(onA, onR)
			m.R.AutoSecret = nil
			if c.Err == nil {
				expectMatch = bytes.Equal(smpSecrets[op.X&3], smpSecrets[(op.X>>2)&3])
				if msg := smpVerdict(m.A.SMP[before:], m.R.SMPResult, expectMatch); msg != "" {
					return o.Fail("C10/interop-smp", "SMP otr3->reference (%s): %s", matchWord(expectMatch), msg)
				}
				smpRuns++
			}
		case "smpr":
			if !m.R.Encrypted {
				continue
			}
			m.Settle(onA, onR)
			before := len(m.A.SMP)
			m.asked = false
			m.fromR(m.R.SMPStart(smpSecrets[op.X&3], op.S))
			m.Settle(onA, onR)
			if m.asked {
				out, err := m.A.C.ProvideAuthenticationSecret(smpSecrets[(op.X>>2)&3])
				m.fromA("ProvideAuthenticationSecret", nil, nil, out, err, m.A.Snap(), true)
				m.Settle(onA, onR)
				expectMatch = bytes.Equal(smpSecrets[op.X&3], smpSecrets[(op.X>>2)&3])
				if msg := smpVerdict(m.A.SMP[before:], m.R.SMPResult, expectMatch); msg != "" {
					return o.Fail("C10/interop-smp", "SMP reference->otr3 (%s): %s", matchWord(expectMatch), msg)
				}
				smpRuns++
			} else {
				return o.Fail("C10/interop-smp-ask", "otr3 did not ask for the secret after the reference's SMP1")
			}
		case "refresh":
			// a new key exchange inside the running session, started by either side: the session id, the keys and the
			// SMP secret derived from them are those of the new exchange
			if !m.R.Encrypted || !m.A.C.IsEncrypted() {
				continue
			}
			m.Settle(onA, onR)
			old := m.A.C.GetSSID()
			completions := m.R.Completions
			sim.Age(m.A.C, 3*60e9)
			if op.X&2 != 0 {
				ok, noise := m.EstablishNoisy(op.X & 1)
				if !ok {
					return o.Fail("C10/interop-ake", "a key exchange inside a running session did not complete (started by %d) although every message of the reference arrived intact, each behind a damaged copy of itself (%d copies)", op.X&1, noise)
				}
				o.Class("refresh-behind-damaged-copies")
			} else if !m.Establish(op.X & 1) {
				return o.Fail("C10/interop-ake", "a key exchange inside a running session did not complete (started by %d)", op.X&1)
			}
			if m.R.Completions != completions+1 || m.A.C.GetSSID() == old {
				// (both sides were encrypted before: only a new session shows that this exchange was completed)
				return o.Fail("C10/interop-ake", "a key exchange inside a running session (started by %d, damaged copies first: %v) left the old session in place: the reference completed %d exchange(s), otr3 reports SSID %x as before", op.X&1, op.X&2 != 0, m.R.Completions-completions, old)
			}
			if got := m.A.C.GetSSID(); got != m.R.SSID {
				return o.Fail("C10/interop-ssid", "after a key exchange inside a running session otr3 reports SSID %x, the reference derives %x (before the exchange: %x)", got, m.R.SSID, old)
			}
			o.Class("refresh-while-encrypted")
		case "endr":
			// the reference ends the session with an unpadded disconnect TLV; otr3 must notice
			if !m.R.Encrypted || !m.A.C.IsEncrypted() {
				continue
			}
			m.Settle(onA, onR)
			if op.X&4 != 0 {
				// otr3 has been silent for more than a minute: a heartbeat is due when the next text arrives
				sim.Age(m.A.C, 3*60e9)
			}
			if op.X&2 != 0 {
				// last words and the disconnect record travel in one message (text, NUL, TLV 1[, padding])
				n++
				t := []byte(token(1, n) + " last words")
				tl := []ref.TLV{{Type: ref.TLVDisconnected}}
				if op.X&16 != 0 {
					// the specification gives the record no fixed length: a value is to be ignored, not the record
					tl[0].Val = []byte("bye")[:1+op.X%3]
					o.Class("ref-disconnect-record-with-value")
				}
				if op.X&8 != 0 {
					tl = append(tl, ref.TLV{Type: 0, Val: make([]byte, 5)})
				}
				if op.X&32 != 0 {
					tl = append([]ref.TLV{{Type: 0, Val: make([]byte, op.X%4)}}, tl...)
					o.Class("padding-before-other-records")
				}
				m.fromR(m.R.Send(t, tl...))
				m.R.Encrypted = false
				sentR = append(sentR, string(t))
				o.Class("ref-disconnect-with-text")
			} else if op.X&(16|32) != 0 {
				tl := []ref.TLV{{Type: ref.TLVDisconnected}}
				if op.X&16 != 0 {
					tl[0].Val = []byte("bye")[:1+op.X%3]
					o.Class("ref-disconnect-record-with-value")
				}
				if op.X&32 != 0 {
					tl = append([]ref.TLV{{Type: 0, Val: make([]byte, op.X%4)}}, tl...)
					o.Class("padding-before-other-records")
				}
				m.fromR(m.R.SendOpts(nil, ref.DataOpts{Flags: 1, TLVs: tl}))
				m.R.Encrypted = false
			} else {
				m.fromR(m.R.End())
			}
			m.Settle(onA, onR)
			if m.A.C.IsEncrypted() {
				return o.Fail("C10/interop-disconnect", "otr3 stayed encrypted after the reference's disconnect message (TLV 1, no padding)")
			}
			out, _ := m.A.C.End()
			_ = out
			o.Class("ref-disconnect")
			m.QtoA, m.QtoR = nil, nil
			sim.Age(m.A.C, 3*60e9)
			if !m.Establish(op.X & 1) {
				return o.Fail("C10/interop-ake", "no new session after a disconnect")
			}
		case "endo":
			if !m.R.Encrypted || !m.A.C.IsEncrypted() {
				continue
			}
			m.Settle(onA, onR)
			out, err := m.A.C.End()
			m.fromA("End", nil, nil, out, err, m.A.Snap(), true)
			m.Settle(onA, onR)
			if m.R.Encrypted || !m.R.Finished {
				return o.Fail("C10/interop-disconnect", "the reference did not see a disconnect TLV in otr3's End() message")
			}
			o.Class("otr3-disconnect")
			m.R.Finished = false
			sim.Age(m.A.C, 3*60e9)
			if !m.Establish(op.X & 1) {
				return o.Fail("C10/interop-ake", "no new session after End()")
			}
		case "abortr":
			// unpadded SMP abort from the reference while otr3 waits for an answer
			if !m.A.C.IsEncrypted() || !m.R.Encrypted {
				continue
			}
			m.Settle(onA, onR)
			m.R.SMPPassive = true
			out, err := m.A.C.StartAuthenticate("", []byte("x"))
			m.fromA("StartAuthenticate", nil, nil, out, err, m.A.Snap(), true)
			m.Settle(onA, onR)
			before := len(m.A.SMP)
			m.fromR(m.R.SendOpts(nil, ref.DataOpts{Flags: 1, TLVs: []ref.TLV{ref.SMPTLV(ref.TLVSMPAbort, nil)}}))
			m.Settle(onA, onR)
			m.R.SMPPassive = false
			if _, _, ab, _, _ := smpFlags(m.A.SMP[before:]); !ab {
				return o.Fail("C10/interop-smp-abort", "otr3 did not report the reference's (unpadded) SMP abort; events %v", m.A.SMP[before:])
			}
			o.Class("ref-smp-abort")
		case "xko":
			if !m.A.C.IsEncrypted() {
				continue
			}
			m.Settle(onA, onR)
			key, out, err := m.A.C.UseExtraSymmetricKey(uint32(op.X), []byte(op.S))
			m.fromA("UseExtraSymmetricKey", nil, nil, out, err, m.A.Snap(), true)
			nk := len(m.R.SymKeys)
			m.Settle(onA, onR)
			if err == nil && (len(m.R.SymKeys) != nk+1 || !bytes.Equal(m.R.SymKeys[nk], key)) {
				return o.Fail("C10/interop-extrakey", "extra symmetric key: otr3 returned %x, the reference derives %x from the same message", key, m.R.SymKeys[nk:])
			}
			o.Class("extrakey-otr3")
		case "xkr":
			if !m.R.Encrypted {
				continue
			}
			m.Settle(onA, onR)
			want := m.R.ExtraKeyFor()
			val := append(ref.PutU32(nil, uint32(op.X)), op.S...)
			nk := len(m.A.Sym)
			if op.X&1 == 1 {
				// the order of records is the sender's business: padding (of any length) may come first
				m.fromR(m.R.Send(nil, ref.TLV{Type: 0, Val: make([]byte, op.X%7)}, ref.TLV{Type: ref.TLVExtraKey, Val: val}))
				o.Class("padding-before-other-records")
			} else {
				m.fromR(m.R.Send(nil, ref.TLV{Type: ref.TLVExtraKey, Val: val}))
			}
			m.Settle(onA, onR)
			if len(m.A.Sym) != nk+1 || !bytes.Equal(m.A.Sym[nk].Key, want) || m.A.Sym[nk].Usage != uint32(op.X) || string(m.A.Sym[nk].Data) != op.S {
				return o.Fail("C10/interop-extrakey-recv", "otr3 did not hand the receiver the key/usage the reference sent (got %d callbacks)", len(m.A.Sym)-nk)
			}
			o.Class("extrakey-ref")
		}
	}
	m.Settle(onA, onR)
	if o.Violation != "" {
		return o
	}
	if fmt.Sprint(gotA) != fmt.Sprint(sentR) {
		return o.Fail("C10/interop-delivery", "otr3 delivered %d texts of the %d the reference sent (or changed them)", len(gotA), len(sentR))
	}
	if fmt.Sprint(gotR) != fmt.Sprint(sentA) {
		return o.Fail("C10/interop-delivery", "the reference read %d texts of the %d otr3 sent (or they differ)", len(gotR), len(sentA))
	}
	for i, om := range m.Seen {
		if len(om.Issues) > 0 && om.From == 0 {
			return o.Fail("C10/"+sigOfIssue(om.Issues[0]), "message #%d of otr3 deviates: %s", i, om.Issues[0])
		}
		if len(om.Issues) > 0 && om.From == 1 {
			return o.Fail("C10/harness-ref-self", "harness self-check: the observer disagrees with the reference party: %s", om.Issues[0])
		}
	}
	rot := m.R.OurKeyID >= 3 && m.R.TheirKeyID >= 2
	if rot {
		o.Class("rotations")
	}
	if smpRuns > 0 {
		o.Class("smp")
	}
	o.Class(fmt.Sprintf("v%d-starter%d", sc.Cfg.V, sc.Cfg.Starter))
	o.NonTrivial = rot
	return o
}

func matchWord(b bool) string {
	if b {
		return "equal secrets"
	}
	return "different secrets"
}

// smpVerdict compares the outcome both sides reached with what the secrets demand.
func smpVerdict(ev []sim.SMPEv, r ref.SMPOutcome, equal bool) string {
	succ, fail := false, false
	for _, e := range ev {
		switch e.Ev {
		case otr3.SMPEventSuccess:
			succ = true
		case otr3.SMPEventFailure, otr3.SMPEventCheated, otr3.SMPEventAbort, otr3.SMPEventError:
			fail = true
		}
	}
	switch {
	case equal && (!succ || fail):
		return fmt.Sprintf("otr3 did not report success (events %v)", ev)
	case equal && !(r.Done && r.Match):
		return fmt.Sprintf("the reference did not reach a match (%+v)", r)
	case !equal && succ:
		return "otr3 reported success"
	case !equal && r.Done && r.Match:
		return "the reference computed a match"
	case !equal && !fail:
		return fmt.Sprintf("otr3 did not report the mismatch (events %v)", ev)
	}
	return ""
}

func init() { reg("C10interop", runC10Interop) }

func TestProp_C10_Interop(t *testing.T) {
	defer sim.MarkCompleted("C10interop", false)
	kinds := []string{"os", "os", "os", "rs", "rs", "rs", "do", "do", "dr", "dr", "settle", "settle", "smpo", "smpr", "xko", "xkr", "endr", "endo", "abortr", "refresh", "refresh"}
	rapid.Check(t, func(rt *rapid.T) {
		sc := &IopScript{Cfg: genSessCfg(rt)}
		if rapid.IntRange(0, 2).Draw(rt, "tagstart") == 0 {
			sc.WS = rapid.IntRange(1, 5).Draw(rt, "tagform")
		}
		if rapid.IntRange(0, 3).Draw(rt, "padfirst") == 0 {
			sc.Pad = rapid.IntRange(1, 9).Draw(rt, "pad")
		}
		if rapid.IntRange(0, 3).Draw(rt, "kidn") == 0 {
			sc.KID = rapid.SampledFrom([]int{2, 3, 100, 70000}).Draw(rt, "kid")
		}
		if sc.Cfg.FragB > 0 && sc.Cfg.FragB < 8 {
			sc.Cfg.FragB = 8
		}
		n := rapid.IntRange(1, 30).Draw(rt, "nops")
		for i := 0; i < n; i++ {
			op := SOp{K: rapid.SampledFrom(kinds).Draw(rt, "k")}
			switch op.K {
			case "os", "rs":
				op.L = lenClasses[rapid.IntRange(0, len(lenClasses)-2).Draw(rt, "lc")]
				op.F = rapid.IntRange(0, 4).Draw(rt, "f")
				op.X = rapid.IntRange(0, 60).Draw(rt, "x")
			case "smpo", "smpr":
				op.X = rapid.IntRange(0, 15).Draw(rt, "x")
				op.S = rapid.SampledFrom([]string{"", "", "who?", "ünï"}).Draw(rt, "q")
			case "endr":
				op.X = rapid.IntRange(0, 63).Draw(rt, "how")
			case "endo":
				op.X = rapid.IntRange(0, 1).Draw(rt, "starter")
			case "refresh":
				op.X = rapid.IntRange(0, 3).Draw(rt, "starter")
			case "xko", "xkr":
				op.X = rapid.IntRange(0, 1<<20).Draw(rt, "x")
				op.S = rapid.SampledFrom([]string{"", "data", "\x01\x02"}).Draw(rt, "s")
			}
			sc.Ops = append(sc.Ops, op)
		}
		sim.Judge(rt, "C10interop", sc)
	})
}

// ---- C10: every fragment size, judged by the reference's reassembly ----

// FragSweepCase: one session; the same short text is sent once for every fragment size in [From, To].
type FragSweepCase struct {
	V    int `json:"v"`
	From int `json:"from"`
	To   int `json:"to"`
	L    int `json:"l"`
}

func runC10FragSweep(c *FragSweepCase) *sim.Outcome {
	o := &sim.Outcome{}
	m := newMix(SessCfg{V: c.V, SeedA: 1010, SeedB: 1061, KeyA: 0, KeyB: 3}, 0)
	if !m.Establish(0) {
		o.Discard = true
		return o
	}
	n := 0
	for f := c.From; f <= c.To && o.Violation == ""; f++ {
		m.A.C.SetFragmentSize(uint16(f))
		n++
		text := append([]byte(token(0, n)), filler(0, c.L, n)...)
		call := m.ASend(text)
		if call.Err != nil {
			return o.Fail("C10/interop-send", "Send with fragment size %d failed: %v", f, call.Err)
		}
		pieces := len(call.Out)
		var got []byte
		m.Settle(nil, func(p []byte, err error) {
			if err != nil && o.Violation == "" {
				o.Fail("C10/interop-ref-rejects", "fragment size %d (%d pieces): the reference implementation, reassembling as the specification says, rejected what otr3 sent: %v", f, pieces, err)
			}
			if p != nil {
				got = p
			}
		})
		if o.Violation == "" && !bytes.Equal(got, text) {
			return o.Fail("C10/interop-fragments", "fragment size %d (%d pieces): the reference reassembled and read %.40q instead of the text sent", f, pieces, got)
		}
		if pieces > 1 {
			o.Class("fragmented")
		}
	}
	o.NonTrivial = true
	return o
}

func init() { reg("C10fragsweep", runC10FragSweep) }

func TestProp_C10_FragSweep(t *testing.T) {
	si, sn := sim.Shard()
	idx := 0
	for _, v := range []int{3, 2} {
		for _, l := range []int{0, 37} {
			// from the smallest size that leaves room for a payload byte to beyond the whole encoded message
			lo, hi := minFrag(v), 800
			for from := lo; from <= hi; from += 60 {
				idx++
				if idx%sn == si {
					to := from + 59
					if to > hi {
						to = hi
					}
					sim.Judge(t, "C10fragsweep", &FragSweepCase{V: v, From: from, To: to, L: l})
				}
			}
		}
	}
	// long texts (the encoded message is longer than two bytes can count), whole and in pieces of several sizes
	for _, v := range []int{3, 2} {
		for _, lf := range [][2]int{{49000, 2000}, {49500, 2001}, {66000, 1400}, {100000, 30000}, {70000, 0}, {52000, 65535}, {48989, 300}} {
			idx++
			if idx%sn == si {
				sim.Judge(t, "C10fragsweep", &FragSweepCase{V: v, From: lf[1], To: lf[1], L: lf[0]})
			}
		}
	}
	sim.MarkCompleted("C10fragsweep", true)
}
