package props

import (
	"fmt"
	"os"
	"testing"

	"pgregory.net/rapid"

	"verif/harness/ref"
	"verif/harness/sim"
)

// ---- C19: a conversation's retained state is bounded, whatever the traffic ----

// CycleScript: a cycle of ops repeated 4N times after a handshake.
type CycleScript struct {
	Cfg   SessCfg `json:"cfg"`
	Pre   []SOp   `json:"pre,omitempty"` // done once, before the cycles: what it leaves behind must not make the cycles accumulate
	Cycle []SOp   `json:"cycle"`
	N     int     `json:"n"`
	NoPro bool    `json:"nopro,omitempty"` // no exchange of texts before the cycles start (the ratchet starts in its initial phase)
}

type c19run struct {
	s      *Sess
	maxOut int // longest message emitted in the current cycle
}

func (r *c19run) exec(op SOp) {
	s, w := r.s, r.s.W
	who := op.W & 1
	switch op.K {
	case "pp":
		s.Exec(SOp{K: "pp", W: who, I: op.I % 2, L: 20})
	case "burst":
		for i := 0; i <= op.I%4; i++ {
			s.Send(who, s.Text(who, 20, 0))
		}
		s.Exec(SOp{K: "flush"})
	case "forgealt":
		// a run of forgeries whose key ids walk over the acceptable pairs (current/previous on either side):
		// key ids travel in the clear, so anybody can name them; the MAC cannot be forged
		for i := 0; i <= 3+op.I%4; i++ {
			r.forge(who, -(i & 1), -((i >> 1) & 1), 1+op.X+i)
		}
	case "tlvonly":
		// an authentic data message without text (an SMP abort): the receiver answers nothing, not even a heartbeat
		w.SMPAbort(who)
		s.Exec(SOp{K: "flush"})
	case "cross":
		// both sides send at the same moment, then everything is delivered: the two key rotations never coincide
		for i := 0; i <= op.I%2; i++ {
			s.Send(0, s.Text(0, 20, 0))
			s.Send(1, s.Text(1, 20, 0))
			s.Exec(SOp{K: "flush"})
		}
	case "v1flood":
		// nothing but key-exchange messages of protocol version 1, which no current client speaks
		for i := 0; i <= 2+op.I%3; i++ {
			before := len(w.Q[who])
			w.Receive(who, []byte([]string{"?OTR:AAEKAAAAwHZlcnNpb24gb25lIGtleSBleGNoYW5nZQ==.", "?OTR:AAEK.", "?OTR:AAEKAAAA"}[(i+op.F)%3]))
			w.Q[who] = w.Q[who][:before]
		}
	case "fragflood":
		// unauthenticated one-piece fragments with reserved, foreign or unparsable instance tags (version 3 headers)
		own := w.P[who].C.GetOurInstanceTag()
		for i := 0; i <= 2+op.I%3; i++ {
			forms := []string{
				fmt.Sprintf("?OTR|%08x|%08x,00001,00001,AAAA,", 1+i, own),
				fmt.Sprintf("?OTR|%08x|%08x,00001,00001,AAAA,", 0x4242+i, own+7),
				fmt.Sprintf("?OTR|%08x|%08x,00001,00002,AAAA,", 0x100+i, 5),
				"?OTR,1,1,AAAA,",
				"?OTR|zz|yy,1,1,AAAA,",
				"?OTR:AAEKAAAAwHZlcnNpb24gb25lIGtleSBleGNoYW5nZQ==.", // a version 1 key-exchange message
				"?OTR:AAEK.",
			}
			before := len(w.Q[who])
			f := (i + op.F) % len(forms)
			if op.X > 0 {
				f = (op.X - 1) % len(forms) // a flood of one kind only: nothing else comes by to flush what it leaves behind
			}
			w.Receive(who, []byte(forms[f]))
			w.Q[who] = w.Q[who][:before]
		}
	case "pendake":
		// a query arrives and the D-H Commit sent in answer is lost: a key exchange stays pending inside the session
		w.AgeClock(who, 3*60e9)
		before := len(w.Q[who])
		w.Receive(who, []byte("?OTRv23?"))
		w.Q[who] = w.Q[who][:before]
	case "errreq":
		// an unauthenticated "?OTR Error" asks for the last message again at the next key exchange
		w.Receive(who, []byte("?OTR Error: could not read that"))
		s.Exec(SOp{K: "flush"})
	case "forge", "garbage":
		// unauthenticated input for `who`: a copy of the peer's latest data message with other key ids / counter, or plain garbage
		var in []byte
		if op.K == "garbage" {
			in = append([]byte("?OTR:AAMD"), filler(0, 40+op.L%100, op.F)...)
		} else {
			for i := len(s.Seen) - 1; i >= 0; i-- {
				m := s.Seen[i]
				if m.From != who && m.Data != nil && m.Raw != nil {
					raw := append([]byte{}, m.Raw...)
					body := m.Hdr.Len
					d := m.Data
					f := d.Fields["senderkeyid"]
					copy(raw[body+f[0]:], ref.PutU32(nil, uint32(int(d.SenderKeyID)+op.L%5-2)))
					f = d.Fields["recipkeyid"]
					copy(raw[body+f[0]:], ref.PutU32(nil, uint32(int(d.RecipKeyID)+op.F%5-2)))
					f = d.Fields["ctr"]
					copy(raw[body+f[0]:], ref.PutU64(nil, d.Ctr+uint64(1+op.X)))
					in = ref.Armor(raw)
					break
				}
			}
		}
		if in == nil {
			return
		}
		before := len(w.Q[who])
		w.Receive(who, in)
		w.Q[who] = w.Q[who][:before] // error replies are not delivered
	case "rejake":
		for i := len(w.Log) - 1; i >= 0; i-- {
			if _, raw, ok := isAKEWire(w.Log[i].Data); ok && w.Log[i].From != who {
				raw = append([]byte{}, raw...)
				raw[len(raw)-1-op.L%10] ^= 0x20
				before := len(w.Q[who])
				w.Receive(who, ref.Armor(raw))
				w.Q[who] = w.Q[who][:before]
				break
			}
		}
	case "rekey":
		s.Exec(SOp{K: "sess", W: who})
	case "smprun":
		s.asked = [2]bool{}
		w.SMPStart(who, "", []byte("secret"))
		s.Exec(SOp{K: "flush"})
		if s.asked[1-who] {
			w.SMPAnswer(1-who, []byte("secret"))
			s.Exec(SOp{K: "flush"})
		}
	case "age":
		s.Exec(SOp{K: "age", W: who})
	case "replayflood":
		// old genuine data messages again
		n := 0
		for _, u := range s.Units {
			if u.From != who && u.IsData() && len(u.Wires) == 1 && n < 3 {
				before := len(w.Q[who])
				w.Receive(who, u.Wires[0].Data)
				w.Q[who] = w.Q[who][:before]
				n++
			}
		}
	}
}

// forge presents to `who` a copy of the peer's latest data message with its key ids moved by ds/dr and its counter raised.
func (r *c19run) forge(who, ds, dr, dctr int) {
	s, w := r.s, r.s.W
	for i := len(s.Seen) - 1; i >= 0; i-- {
		m := s.Seen[i]
		if m.From != who && m.Data != nil && m.Raw != nil {
			raw := append([]byte{}, m.Raw...)
			body := m.Hdr.Len
			d := m.Data
			f := d.Fields["senderkeyid"]
			copy(raw[body+f[0]:], ref.PutU32(nil, uint32(int(d.SenderKeyID)+ds)))
			f = d.Fields["recipkeyid"]
			copy(raw[body+f[0]:], ref.PutU32(nil, uint32(int(d.RecipKeyID)+dr)))
			f = d.Fields["ctr"]
			copy(raw[body+f[0]:], ref.PutU64(nil, d.Ctr+uint64(dctr)))
			before := len(w.Q[who])
			w.Receive(who, ref.Armor(raw))
			w.Q[who] = w.Q[who][:before] // error replies are not delivered
			return
		}
	}
}

func runC19(sc *CycleScript) *sim.Outcome {
	o := &sim.Outcome{}
	cfg := sc.Cfg
	cfg.FragA, cfg.FragB = 0, 0
	s := newSess(&SessScript{Cfg: cfg}, o)
	r := &c19run{s: s}
	prev := s.W.OnCall
	s.W.OnCall = func(c *sim.Call) {
		prev(c)
		for _, m := range c.Out {
			if len(m) > r.maxOut {
				r.maxOut = len(m)
			}
		}
	}
	if !s.Handshake(cfg.Starter) {
		o.Discard = true
		return o
	}
	// both have said something: there is a "most recent message" on either side
	if !sc.NoPro {
		s.Exec(SOp{K: "pp", W: 0, I: 0, L: 20})
	}
	for _, op := range sc.Pre {
		r.exec(op)
		o.Class("pre-" + op.K)
	}
	n := sc.N
	if n < 2 {
		n = 2
	}
	size := make([][2]int, 4*n+1)
	out := make([]int, 4*n+1)
	accepted, rejected := false, false
	for i := 1; i <= 4*n; i++ {
		r.maxOut = 0
		for _, op := range sc.Cycle {
			r.exec(op)
			switch op.K {
			case "pp", "burst", "cross", "tlvonly":
				accepted = true
			case "forge", "forgealt", "garbage", "rejake", "replayflood", "errreq", "fragflood", "v1flood":
				rejected = true
			}
		}
		// units and observations are harness bookkeeping; keep them from growing without bound
		if len(s.Units) > 400 {
			s.Units = s.Units[len(s.Units)-200:]
		}
		if len(s.Seen) > 400 {
			s.Seen = s.Seen[len(s.Seen)-200:]
		}
		for p := 0; p < 2; p++ {
			size[i][p] = sim.Walk(s.W.P[p].C).Size
		}
		out[i] = r.maxOut
		if os.Getenv("VERIF_DEBUG") != "" && i%6 == 0 {
			fmt.Printf("DBG cycle %d sizes %v maxout %d\n", i, size[i], out[i])
		}
	}
	maxUpTo := func(p, k int) int {
		m := 0
		for i := 1; i <= k; i++ {
			if size[i][p] > m {
				m = size[i][p]
			}
		}
		return m
	}
	for p := 0; p < 2; p++ {
		base := maxUpTo(p, n)
		for _, k := range []int{2 * n, 4 * n} {
			if size[k][p] > base+1024 {
				return o.Fail("C19/state-grows", "%s retains %d bytes after %d cycles; the largest it held during the first %d cycles was %d (cycle of %d ops: %s)", s.W.P[p].Name, size[k][p], k, n, base, len(sc.Cycle), cycleDesc(sc.Cycle))
			}
		}
	}
	// slow, steady growth (tens of bytes per cycle) stays under the allowance above for a long time; what gives it away
	// is that it does not level off: the second interval is twice as long as the first and gains at least 1.5 times as much
	for p := 0; p < 2; p++ {
		d1 := size[2*n][p] - maxUpTo(p, n)
		d2 := size[4*n][p] - size[2*n][p]
		if d1 >= 96 && 2*d2 >= 3*d1 {
			return o.Fail("C19/state-grows", "%s's retained state does not level off: at most %d bytes during the first %d cycles, %d after %d, %d after %d (cycle of %d ops: %s)", s.W.P[p].Name, maxUpTo(p, n), n, size[2*n][p], 2*n, size[4*n][p], 4*n, len(sc.Cycle), cycleDesc(sc.Cycle))
		}
	}
	early, late := 0, 0
	for i := 1; i <= n; i++ {
		if out[i] > early {
			early = out[i]
		}
	}
	for i := 2*n + 1; i <= 4*n; i++ {
		if out[i] > late {
			late = out[i]
		}
	}
	if late > early+160 {
		return o.Fail("C19/message-grows", "the longest outgoing message in cycles %d..%d is %d bytes, in cycles 1..%d it was %d (cycle: %s)", 2*n+1, 4*n, late, n, early, cycleDesc(sc.Cycle))
	}
	for _, op := range sc.Cycle {
		o.Class("op-" + op.K)
	}
	o.NonTrivial = accepted || rejected
	return o
}

func cycleDesc(c []SOp) string {
	s := ""
	for _, op := range c {
		s += fmt.Sprintf("%s/%d ", op.K, op.W&1)
	}
	return s
}

func init() { reg("C19cycles", runC19); reg("C19patterns", runC19) }

func TestProp_C19_Cycles(t *testing.T) {
	defer sim.MarkCompleted("C19cycles", false)
	kinds := []string{"pp", "pp", "pp", "tlvonly", "cross", "cross", "burst", "burst", "forge", "forge", "forgealt", "forgealt", "errreq", "fragflood", "v1flood", "garbage", "rejake", "rekey", "rekey", "smprun", "age", "replayflood"}
	maxN := 10
	if sim.Thorough() {
		maxN = 32
	}
	rapid.Check(t, func(rt *rapid.T) {
		sc := &CycleScript{Cfg: genSessCfg(rt), N: rapid.IntRange(4, maxN).Draw(rt, "n"), NoPro: rapid.Bool().Draw(rt, "nopro")}
		k := rapid.IntRange(1, 4).Draw(rt, "len")
		for i := 0; i < k; i++ {
			sc.Cycle = append(sc.Cycle, SOp{K: rapid.SampledFrom(kinds).Draw(rt, "k"), W: rapid.IntRange(0, 1).Draw(rt, "w"), I: rapid.IntRange(0, 3).Draw(rt, "i"),
				L: rapid.IntRange(0, 50).Draw(rt, "l"), F: rapid.IntRange(0, 50).Draw(rt, "f"), X: rapid.IntRange(0, 1000).Draw(rt, "x")})
		}
		for i, np := 0, rapid.IntRange(-2, 2).Draw(rt, "npre"); i < np; i++ {
			sc.Pre = append(sc.Pre, SOp{K: rapid.SampledFrom([]string{"errreq", "pendake", "age", "smprun"}).Draw(rt, "prek"), W: rapid.IntRange(0, 1).Draw(rt, "prew")})
		}
		sim.Judge(rt, "C19cycles", sc)
	})
}

// TestProp_C19_Patterns: the named traffic patterns of the statement, each alone, both versions.
func TestProp_C19_Patterns(t *testing.T) {
	si, sn := sim.Shard()
	n := 12
	if sim.Thorough() {
		n = 64
	}
	pats := [][]SOp{
		{{K: "pp", W: 0}},
		{{K: "pp", W: 1, I: 1}},
		{{K: "burst", W: 0, I: 3}},
		{{K: "burst", W: 1, I: 3}},
		{{K: "burst", W: 0, I: 2}, {K: "pp", W: 0}},
		{{K: "forge", W: 0, L: 1, F: 0, X: 5}, {K: "pp", W: 0}},
		{{K: "forge", W: 1, L: 0, F: 1, X: 7}, {K: "forge", W: 1, L: 2, F: 2, X: 9}, {K: "pp", W: 1}},
		{{K: "forge", W: 0, L: 0, F: 0, X: 3}, {K: "forge", W: 0, L: 0, F: 0, X: 4}, {K: "burst", W: 1, I: 1}},
		{{K: "garbage", W: 0}, {K: "garbage", W: 1}, {K: "pp", W: 0}},
		{{K: "rejake", W: 0}, {K: "rejake", W: 1}, {K: "pp", W: 0}},
		{{K: "rekey", W: 0}, {K: "pp", W: 0}},
		{{K: "rekey", W: 1}, {K: "burst", W: 0, I: 2}},
		{{K: "smprun", W: 0}, {K: "pp", W: 0}},
		{{K: "replayflood", W: 0}, {K: "replayflood", W: 1}, {K: "pp", W: 0}},
		{{K: "age", W: 0}, {K: "age", W: 1}, {K: "pp", W: 0}},
		// nobody sends: only unauthenticated input arrives
		{{K: "forgealt", W: 0, I: 3}},
		{{K: "forgealt", W: 1, I: 1}, {K: "forge", W: 1, L: 2, F: 1, X: 3}},
		{{K: "forgealt", W: 0}, {K: "burst", W: 0, I: 1}},
		{{K: "garbage", W: 0}, {K: "replayflood", W: 0}},
		{{K: "fragflood", W: 0, I: 2}},
		{{K: "fragflood", W: 1, I: 1, F: 1}, {K: "garbage", W: 1}},
		{{K: "v1flood", W: 0, I: 2}},
		{{K: "v1flood", W: 1, I: 1, F: 1}, {K: "age", W: 0}},
		{{K: "fragflood", W: 0, I: 2, F: 3}},
		{{K: "fragflood", W: 1, I: 2, F: 5}},
		// one side only listens: its only output is the heartbeat after a silence
		{{K: "age", W: 0}, {K: "burst", W: 1, I: 2}},
		{{K: "age", W: 1}, {K: "burst", W: 0, I: 3}, {K: "burst", W: 0, I: 1}},
		{{K: "age", W: 0}, {K: "age", W: 1}, {K: "burst", W: 1, I: 1}, {K: "fragflood", W: 0}},
		// messages that cross on the wire, round after round
		{{K: "cross", W: 0, I: 1}},
		{{K: "cross", W: 0}, {K: "forge", W: 1, L: 2, F: 2, X: 3}},
		// a listen-only party through repeated re-keying: it receives texts, and answers with key-exchange messages only
		{{K: "age", W: 0}, {K: "age", W: 1}, {K: "rekey", W: 1}, {K: "burst", W: 1, I: 1}},
		{{K: "rekey", W: 0}, {K: "burst", W: 1, I: 2}},
		{{K: "rekey", W: 1}, {K: "burst", W: 0, I: 0}},
		{{K: "rekey", W: 1}, {K: "tlvonly", W: 1}},
		{{K: "rekey", W: 0}, {K: "tlvonly", W: 1}, {K: "tlvonly", W: 1}},
		// the user stays silent after one message while the peer keeps asking for it again and re-keying
		{{K: "errreq", W: 0}, {K: "age", W: 0}, {K: "age", W: 1}, {K: "rekey", W: 1}},
		{{K: "errreq", W: 1}, {K: "age", W: 0}, {K: "age", W: 1}, {K: "rekey", W: 1}},
		{{K: "errreq", W: 0}, {K: "age", W: 0}, {K: "age", W: 1}, {K: "rekey", W: 0}},
		{{K: "errreq", W: 0}, {K: "errreq", W: 1}, {K: "age", W: 0}, {K: "age", W: 1}, {K: "rekey", W: 0}},
	}
	for x := 1; x <= 7; x++ {
		pats = append(pats, []SOp{{K: "fragflood", W: x & 1, I: 2, X: x}})
	}
	// something happens once, then traffic of one kind goes on and on
	type prePat struct{ pre, cyc []SOp }
	prePats := []prePat{
		{[]SOp{{K: "errreq", W: 0}}, []SOp{{K: "burst", W: 0, I: 2}}},
		{[]SOp{{K: "errreq", W: 1}}, []SOp{{K: "pp", W: 0}}},
		{[]SOp{{K: "errreq", W: 0}}, []SOp{{K: "cross", W: 0}}},
		{nil, []SOp{{K: "errreq", W: 0}, {K: "burst", W: 0, I: 1}}},
		{nil, []SOp{{K: "errreq", W: 1}, {K: "pp", W: 1}}},
		{[]SOp{{K: "pendake", W: 0}}, []SOp{{K: "garbage", W: 0}}},
		{[]SOp{{K: "pendake", W: 1}}, []SOp{{K: "garbage", W: 1}, {K: "forge", W: 1, L: 1, X: 3}}},
		{[]SOp{{K: "pendake", W: 0}}, []SOp{{K: "garbage", W: 0}, {K: "pp", W: 0}}},
		{[]SOp{{K: "pendake", W: 0}}, []SOp{{K: "replayflood", W: 0}}},
		{[]SOp{{K: "pendake", W: 1}}, []SOp{{K: "burst", W: 0, I: 2}}},
		{[]SOp{{K: "pendake", W: 0}, {K: "pendake", W: 1}}, []SOp{{K: "pp", W: 0}, {K: "garbage", W: 1}}},
	}
	idx := 0
	for _, v := range []int{3, 2} {
		for _, pp := range prePats {
			idx++
			if idx%sn == si {
				sim.Judge(t, "C19patterns", &CycleScript{Cfg: SessCfg{V: v, SeedA: 1900, SeedB: 2001, KeyA: 0, KeyB: 3}, Pre: pp.pre, Cycle: pp.cyc, N: n})
			}
		}
		for _, p := range pats {
			idx++
			if idx%sn != si {
				continue
			}
			sim.Judge(t, "C19patterns", &CycleScript{Cfg: SessCfg{V: v, SeedA: 1900, SeedB: 2001, KeyA: 0, KeyB: 3}, Cycle: p, N: n})
			if p[0].K == "cross" || p[0].K == "burst" {
				// the same from the ratchet's initial phase (which key rotates on which message depends on what came before)
				sim.Judge(t, "C19patterns", &CycleScript{Cfg: SessCfg{V: v, SeedA: 1900, SeedB: 2001, KeyA: 0, KeyB: 3, Starter: 1}, Cycle: p, N: n, NoPro: true})
			}
		}
	}
	sim.MarkCompleted("C19patterns", true)
}

// ---- C19 (peer part): a peer that uses the specification's freedoms, round after round ----

// RefGrowCase: otr3 talks to the reference for 4N rounds of one traffic shape; what otr3 retains must level off.
type RefGrowCase struct {
	V     int `json:"v"`
	Kid   int `json:"kid"`   // serial number of the reference's first D-H key
	Pad   int `json:"pad"`   // > 0: padding record first
	Shape int `json:"shape"` // 0 ping-pong; 1 the reference talks, otr3 listens; 2 otr3 talks, the reference acknowledges every third text; 3 ping-pong with flagged texts
	N     int `json:"n"`
}

func runC19Ref(c *RefGrowCase) *sim.Outcome {
	o := &sim.Outcome{}
	m := newMix(SessCfg{V: c.V, SeedA: 1940, SeedB: 2041, KeyA: 0, KeyB: 3, RKid: c.Kid, RPad: c.Pad}, 0)
	if !m.Establish(c.Shape & 1) {
		o.Discard = true
		return o
	}
	n := c.N
	if n < 4 {
		n = 4
	}
	size := make([]int, 4*n+1)
	for i := 1; i <= 4*n; i++ {
		switch c.Shape % 4 {
		case 0:
			m.ASend([]byte(token(0, i)))
			m.fromR(m.R.Send([]byte(token(1, i))))
		case 1:
			m.fromR(m.R.Send([]byte(token(1, i))))
			sim.Age(m.A.C, 2*60e9) // (a listener's heartbeat is its only output)
		case 2:
			m.ASend([]byte(token(0, i)))
			if i%3 == 0 {
				m.fromR(m.R.Send([]byte(token(1, i))))
			}
		case 3:
			m.ASend([]byte(token(0, i)))
			m.fromR(m.R.SendOpts([]byte(token(1, i)), ref.DataOpts{Flags: 1}))
		}
		bad := false
		m.Settle(func(cl *sim.Call) { bad = bad || (cl != nil && cl.Err != nil) }, func(_ []byte, err error) { bad = bad || err != nil })
		if bad {
			return o.Fail("C19/harness-traffic", "round %d: a genuine message was refused by one side", i)
		}
		size[i] = sim.Walk(m.A.C).Size
	}
	base := 0
	for i := 1; i <= n; i++ {
		if size[i] > base {
			base = size[i]
		}
	}
	for _, k := range []int{2 * n, 4 * n} {
		if size[k] > base+1024 {
			return o.Fail("C19/state-grows", "talking to a peer that numbers its keys from %d (padding first: %v, traffic shape %d), otr3 retains %d bytes after %d rounds; the largest it held during the first %d rounds was %d", c.Kid, c.Pad > 0, c.Shape%4, size[k], k, n, base)
		}
	}
	if d1, d2 := size[2*n]-base, size[4*n]-size[2*n]; d1 >= 96 && 2*d2 >= 3*d1 {
		return o.Fail("C19/state-grows", "talking to a peer that numbers its keys from %d (traffic shape %d), otr3's retained state does not level off: at most %d bytes during the first %d rounds, %d after %d, %d after %d", c.Kid, c.Shape%4, base, n, size[2*n], 2*n, size[4*n], 4*n)
	}
	o.Class(fmt.Sprintf("shape%d-kid%d", c.Shape%4, c.Kid))
	o.NonTrivial = true
	return o
}

func init() { reg("C19ref", runC19Ref) }

func TestProp_C19_Ref(t *testing.T) {
	si, sn := sim.Shard()
	n := 12
	if sim.Thorough() {
		n = 64
	}
	idx := 0
	for _, v := range []int{3, 2} {
		for _, kid := range []int{0, 2, 100, 70000} {
			for shape := 0; shape < 4; shape++ {
				idx++
				if idx%sn == si {
					sim.Judge(t, "C19ref", &RefGrowCase{V: v, Kid: kid, Pad: (kid + shape) % 3, Shape: shape, N: n})
				}
			}
		}
	}
	sim.MarkCompleted("C19ref", true)
}
