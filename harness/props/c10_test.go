package props

import (
	"bytes"
	"testing"

	"pgregory.net/rapid"

	"verif/harness/sim"
)

// ---- C10: everything on the wire is what the specification prescribes ----

func runC10Observer(sc *SessScript) *sim.Outcome {
	o := &sim.Outcome{}
	s := newSess(sc, o)
	w := s.W
	if !s.Handshake(sc.Cfg.Starter) {
		// every message of the handshake was emitted by an honest party; if the observer finds them all as prescribed,
		// one of them was refused although it is what the specification prescribes
		if is := s.ObsIssues(); len(is) > 0 {
			return o.Fail("C10/"+sigOfIssue(is[0]), "%s", is[0])
		}
		return o.Fail("C10/conformant-message-refused", "a key exchange between two conversations over a reliable channel did not complete although every message emitted is what the specification prescribes (short D-H public values armed: A %d, B %d)", sc.Cfg.SkA, sc.Cfg.SkB)
	}
	rotated := false
	for _, op := range sc.Ops {
		c := s.Exec(op)
		if c != nil && c.Name == "UseExtraSymmetricKey" && c.Err == nil && len(c.Out) > 0 {
			// the key handed to the caller must be h2(0xFF, s) of the pair the message used
			last := s.Seen[len(s.Seen)-1]
			if last.Verified && !bytes.Equal(last.Extra, c.Plain) {
				return o.Fail("C10/extra-key", "UseExtraSymmetricKey returned %x, the specification derives %x", c.Plain, last.Extra)
			}
			o.Class("extrakey")
		}
		if c != nil && c.Name == "Receive" {
			for _, k := range c.NewSym(w.P[c.Who]) {
				// the receiver must be handed the key of the message that carried the TLV
				found := false
				for i := len(s.Seen) - 1; i >= 0 && !found; i-- {
					m := s.Seen[i]
					if m.From != c.Who && m.Verified && m.Plain != nil && bytes.Equal(m.Extra, k.Key) {
						found = true
					}
				}
				if !found {
					return o.Fail("C10/extra-key-recv", "receiver was handed symmetric key %x which belongs to no message of the peer", k.Key)
				}
				o.Class("extrakey-received")
			}
		}
	}
	s.Exec(SOp{K: "flush"})
	nData, nAKE := 0, 0
	for _, m := range s.Seen {
		if m.Data != nil && m.Verified {
			nData++
			if m.Data.SenderKeyID >= 2 {
				rotated = true
			}
			for _, t := range m.Plain.TLVs {
				switch {
				case t.Type == 0:
					o.Class("tlv-padding")
				case t.Type >= 2 && t.Type <= 7:
					o.Class("tlv-smp")
				case t.Type == 8:
					o.Class("tlv-extrakey")
				case t.Type == 1:
					o.Class("tlv-disconnect")
				}
			}
			// padding only as type-0 TLVs: text, NUL, TLVs and nothing else is enforced by ParsePlain;
			// a message carrying TLVs must have the NUL
		}
		if m.Reveal != nil || m.Sig != nil {
			nAKE++
		}
		if m.IsFrag {
			o.Class("fragment")
		}
	}
	if is := s.ObsIssues(); len(is) > 0 {
		return o.Fail("C10/"+sigOfIssue(is[0]), "wire deviates from the specification: %s (and %d more)", is[0], len(is)-1)
	}
	o.NonTrivial = nAKE >= 2 && rotated
	if sc.Cfg.V == 2 {
		o.Class("v2")
	} else {
		o.Class("v3")
	}
	return o
}

func sigOfIssue(is string) string {
	// first few words after the "msg#N from X: " prefix
	if i := bytes.Index([]byte(is), []byte(": ")); i >= 0 {
		is = is[i+2:]
	}
	words := bytes.Fields([]byte(is))
	if len(words) > 3 {
		words = words[:3]
	}
	return string(bytes.Join(words, []byte("-")))
}

func init() { reg("C10observer", runC10Observer) }

func TestProp_C10_Observer(t *testing.T) {
	defer sim.MarkCompleted("C10observer", false)
	kinds := append([]string{"end", "query", "query"}, sessOpKinds...)
	rapid.Check(t, func(rt *rapid.T) {
		sc := &SessScript{Cfg: genSessCfg(rt), Ops: genSOps(rt, kinds, 40, 1500)}
		sim.Judge(rt, "C10observer", sc)
	})
}
