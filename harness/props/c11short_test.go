package props

import (
	"fmt"
	"testing"

	"verif/harness/sim"
)

// ---- C11 (boundary values an honest run produces by chance): one value a byte shorter than usual ----
//
// Every number in an SMP message travels as a minimal-length MPI. About once in 256 runs a hash or a group
// element starts with a zero byte and is a byte shorter on the wire; once in 128 an exponent does. Code that
// compares raw digests, or expects fixed lengths, refuses such an honest message. Instead of waiting for the
// chance, the reference prover re-draws its randomness until the chosen value is short, for each value of each
// message it can send, in either role, and the run with equal secrets must succeed on both sides (and with
// different secrets fail on both).

// ShortCase: the reference takes part in one SMP run with the named value forced short.
type ShortCase struct {
	V     int    `json:"v"`
	Name  string `json:"name"`
	RefIn bool   `json:"refinit"` // the reference initiates (sends messages 1 and 3), else it answers (2 and 4)
	Equal bool   `json:"eq"`
}

var shortInit = []string{"g2a", "c2", "d2", "g3a", "c3", "d3", "pa", "qa", "cpa", "d5a", "d6a", "cr", "d7"}
var shortResp = []string{"g2b", "c2b", "d2b", "g3b", "c3b", "d3b", "pb", "qb", "cp", "d5", "d6", "crb", "d7b"}

func runC11Short(c *ShortCase) *sim.Outcome {
	o := &sim.Outcome{}
	m := newMix(SessCfg{V: c.V, SeedA: 1100, SeedB: 1151, KeyA: 0, KeyB: 3}, 0)
	if !m.Establish(0) {
		o.Discard = true
		return o
	}
	m.R.SMPShort = c.Name
	secA, secR := []byte("the same words"), []byte("the same words")
	if !c.Equal {
		secR = []byte("other words")
	}
	nEv := len(m.A.SMP)
	if c.RefIn {
		m.asked = false
		m.fromR(m.R.SMPStart(secR, ""))
		m.Settle(nil, nil)
		if !m.asked {
			return o.Fail("C11/honest-rejected", "an honest SMP1 whose %s has a zero top byte did not make otr3 ask for the secret (events %v)", c.Name, m.A.SMP[nEv:])
		}
		buf, reuse := sim.Lend(secA)
		out, err := m.A.C.ProvideAuthenticationSecret(buf)
		reuse()
		m.fromA("ProvideAuthenticationSecret", nil, nil, out, err, m.A.Snap(), true)
	} else {
		m.R.AutoSecret = secR
		buf, reuse := sim.Lend(secA)
		out, err := m.A.C.StartAuthenticate("", buf)
		reuse()
		m.fromA("StartAuthenticate", nil, nil, out, err, m.A.Snap(), true)
	}
	m.Settle(nil, nil)
	succ, fail, abort, cheat, errr := smpFlags(m.A.SMP[nEv:])
	what := fmt.Sprintf("run in which the reference's %s has a zero top byte (reference initiates: %v, version %d)", c.Name, c.RefIn, c.V)
	if c.Equal {
		if !succ || !m.R.SMPResult.Match {
			return o.Fail("C11/equal-secrets-failed", "equal secrets, %s: otr3 success=%v failure=%v abort=%v cheated=%v error=%v, reference %+v", what, succ, fail, abort, cheat, errr, m.R.SMPResult)
		}
	} else if succ || m.R.SMPResult.Match || !fail {
		return o.Fail("C11/different-secrets", "different secrets, %s: otr3 success=%v failure=%v abort=%v cheated=%v error=%v, reference %+v", what, succ, fail, abort, cheat, errr, m.R.SMPResult)
	}
	o.Class("short-" + c.Name)
	// the value was made short by re-drawing (zero re-draws: it was short at the first attempt, or never built)
	o.NonTrivial = m.R.SMPShortTries() > 0
	if !o.NonTrivial {
		o.Class("no-redraw-needed")
	}
	return o
}

func init() { reg("C11short", runC11Short) }

func TestProp_C11_ShortValues(t *testing.T) {
	si, sn := sim.Shard()
	idx := 0
	for _, v := range []int{3, 2} {
		for _, refIn := range []bool{true, false} {
			names := shortResp
			if refIn {
				names = shortInit
			}
			for _, n := range names {
				for _, eq := range []bool{true, false} {
					if !eq && !sim.Thorough() {
						continue
					}
					idx++
					if idx%sn == si {
						sim.Judge(t, "C11short", &ShortCase{V: v, Name: n, RefIn: refIn, Equal: eq})
					}
				}
			}
		}
	}
	sim.MarkCompleted("C11short", true)
}
