package props

import (
	"bytes"
	"testing"

	"pgregory.net/rapid"

	"verif/harness/ref"
	"verif/harness/sim"
)

// ---- C09: MAC keys are disclosed only once retired, and then they are disclosed ----

type accepted struct {
	party      int
	sess       *ref.Session
	own, their uint32 // key ids from the acceptor's point of view
	key        []byte // the acceptor's receiving MAC key
	atSeen     int    // len(s.Seen) when accepted
}

func runC09(sc *SessScript) *sim.Outcome {
	o := &sim.Outcome{}
	s := newSess(sc, o)
	var acc []accepted
	disclosures, rot := 0, [2]bool{}
	// soundness of every disclosure, judged at the moment the message is emitted
	s.OnObs = func(c *sim.Call, m *ref.ObsMsg) {
		if m.Data == nil || !m.Verified || o.Violation != "" {
			return
		}
		d := m.Data
		if d.SenderKeyID >= 2 {
			rot[0] = true
		}
		if d.RecipKeyID >= 2 {
			rot[1] = true
		}
		for i := 0; i+20 <= len(d.OldMACKeys); i += 20 {
			k := d.OldMACKeys[i : i+20]
			disclosures++
			found, live := false, ""
			for _, ss := range s.Obs.Sessions {
				for _, pk := range s.Obs.PairKeys(m.From, ss) {
					isRecv, isSend := bytes.Equal(pk.RecvMAC, k), bytes.Equal(pk.SendMAC, k)
					if !isRecv && !isSend {
						continue
					}
					found = true
					// the acceptance window of the discloser, read off this very message:
					// own ids {s, s+1}, their ids {r-1, r}
					if ss == m.Sess && (pk.Own == d.SenderKeyID || pk.Own == d.SenderKeyID+1) && (pk.Their == d.RecipKeyID || pk.Their+1 == d.RecipKeyID) {
						live = "receiving"
						if isSend {
							live = "sending"
						}
					}
				}
			}
			if !found {
				o.Fail("C09/unknown-key", "%s disclosed a MAC key that belongs to none of its key pairs", s.W.P[m.From].Name)
				return
			}
			if live != "" {
				o.Fail("C09/live-key-disclosed", "%s disclosed the %s MAC key of a pair still inside its acceptance window (message sender key %d, recipient key %d)", s.W.P[m.From].Name, live, d.SenderKeyID, d.RecipKeyID)
				return
			}
		}
	}
	judge := func(c *sim.Call, u *Unit) {
		if c == nil || u == nil || !u.IsData() || !u.Obs.Verified || u.From == c.Who {
			return
		}
		if s.hasEffect(c) {
			acc = append(acc, accepted{c.Who, u.Obs.Sess, u.Obs.Data.RecipKeyID, u.Obs.Data.SenderKeyID, u.Obs.MACKey, len(s.Seen)})
		}
	}
	if !s.Handshake(sc.Cfg.Starter) {
		o.Discard = true
		return o
	}
	deliverAll := func() {
		for n := 0; n < 100000 && s.W.Pending() > 0; n++ {
			d := n % 2
			if len(s.W.Q[d]) == 0 {
				d = 1 - d
			}
			judge(s.DeliverQ(d, 0))
		}
	}
	for _, op := range sc.Ops {
		if o.Violation != "" {
			return o
		}
		switch op.K {
		case "dl":
			judge(s.DeliverQ(op.W&1, op.I))
		case "flush":
			deliverAll()
		case "pp":
			for i := 0; i <= op.I%3; i++ {
				for _, d := range []int{op.W & 1, 1 - op.W&1} {
					s.Send(d, s.Text(d, op.L%200, op.F))
					deliverAll()
				}
			}
		case "badmac":
			// a copy of the message in flight with a damaged MAC reaches the receiver before the genuine one
			dir := op.W & 1
			if len(s.W.Q[dir]) == 0 {
				s.Send(dir, s.Text(dir, op.L%40, op.F))
			}
			if q := s.W.Q[dir]; len(q) > 0 {
				if raw, ok := ref.Dearmor(q[0].Data); ok && len(raw) > 40 {
					if h, err := ref.ParseHeader(raw); err == nil && h.Type == ref.TypeData {
						if d, err := ref.ParseData(raw[h.Len:]); err == nil {
							f := d.Fields["mac"]
							raw[h.Len+f[0]+op.I%20] ^= 0x04
							if op.F%2 == 1 {
								// ... or after it: the key has vouched for the genuine message by then, and a refused
								// copy must not make the receiver forget that it owes the key
								judge(s.DeliverQ(dir, 0))
								o.Class("damaged-copy-after")
							} else {
								o.Class("damaged-copy-first")
							}
							before := len(s.W.Q[1-dir])
							s.W.Receive(1-dir, ref.Armor(raw))
							s.W.Q[1-dir] = s.W.Q[1-dir][:before]
						}
					}
				}
			}
		case "cross":
			// both sides send before either reads (messages cross on the wire), op.I+1 times
			for i := 0; i <= op.I%3; i++ {
				s.Send(0, s.Text(0, op.L%50, op.F))
				s.Send(1, s.Text(1, op.L%50, op.F))
				deliverAll()
			}
		case "burst":
			// one-directional stream
			for i := 0; i <= op.I%6; i++ {
				s.Send(op.W&1, s.Text(op.W&1, op.L%100, op.F))
			}
			deliverAll()
		case "fault":
			// the next read of this party's randomness source fails (once): whatever step needed it is refused,
			// and nothing may have been given up on the strength of a rotation that did not happen
			p := s.W.P[op.W&1]
			p.R.FailAt, p.R.FailFor, p.R.FailMode = p.R.Reads(), 1, op.I%2
			o.Class("randomness-fault-armed")
		case "halfrefresh":
			// a refresh that does not complete: the query arrives, the answering D-H Commit is lost, and the old
			// session stays in use - nothing of it may be given up on the strength of the attempt
			s.W.AgeClock(0, 3*60e9)
			s.W.AgeClock(1, 3*60e9)
			deliverAll()
			s.Exec(SOp{K: "query", W: op.W})
			if q := s.W.Q[op.W&1]; len(q) > 0 {
				s.DeliverQ(op.W&1, len(q)-1)
			}
			s.W.Q[0], s.W.Q[1] = nil, nil
			o.Class("refresh-left-unfinished")
		case "refresh":
			s.W.AgeClock(0, 3*60e9)
			s.W.AgeClock(1, 3*60e9)
			s.Exec(SOp{K: "query", W: op.W})
			deliverAll()
			o.Class("refresh-while-encrypted")
		default:
			s.Exec(op)
		}
	}
	deliverAll()
	if o.Violation != "" {
		return o
	}
	// completeness: a receiving key that verified a message and whose pair was retired must be disclosed
	for _, a := range acc {
		retiredAt := -1
		disclosed := false
		for i := a.atSeen; i < len(s.Seen); i++ {
			m := s.Seen[i]
			if m.From != a.party || m.Data == nil || !m.Verified || m.Sess != a.sess {
				continue
			}
			d := m.Data
			inWindow := (a.own == d.SenderKeyID || a.own == d.SenderKeyID+1) && (a.their == d.RecipKeyID || a.their+1 == d.RecipKeyID)
			if !inWindow && retiredAt < 0 {
				retiredAt = i
			}
			if retiredAt >= 0 {
				for j := 0; j+20 <= len(d.OldMACKeys); j += 20 {
					if bytes.Equal(d.OldMACKeys[j:j+20], a.key) {
						disclosed = true
					}
				}
			}
		}
		if retiredAt >= 0 {
			o.Class("retired-pair-judged")
			if !disclosed {
				return o.Fail("C09/not-disclosed", "%s accepted a message under pair (own %d, their %d), retired the pair (message #%d shows a later window) but never disclosed its receiving MAC key", s.W.P[a.party].Name, a.own, a.their, retiredAt)
			}
		}
	}
	// experiment: nothing forged under a disclosed key is accepted by its discloser
	tried := 0
	for ks, at := range s.Obs.Disclosed {
		if tried >= 6 {
			break
		}
		m := s.Obs.Msgs[at]
		if m.Data == nil || m.Sess == nil {
			continue
		}
		disc := m.From
		if !s.W.P[disc].C.IsEncrypted() {
			continue
		}
		// a message towards the discloser: header as the peer writes it
		var last *ref.ObsMsg
		for i := len(s.Seen) - 1; i >= 0; i-- {
			if s.Seen[i].From != disc && s.Seen[i].Data != nil && s.Seen[i].Verified {
				last = s.Seen[i]
				break
			}
		}
		if last == nil {
			continue
		}
		hdr := last.Raw[:last.Hdr.Len]
		for _, pk := range s.Obs.PairKeys(disc, last.Sess) {
			body := ref.BuildData(hdr, 0, pk.Their, pk.Own, last.Data.NextDH, last.Data.Ctr+5000, last.Data.Enc, []byte(ks), nil)
			c := s.W.Receive(disc, ref.Armor(append(append([]byte{}, hdr...), body...)))
			tried++
			if s.hasEffect(c) {
				return o.Fail("C09/forgery-under-disclosed-key", "%s accepted a message forged under a MAC key it had disclosed itself (pair own %d / their %d)", s.W.P[disc].Name, pk.Own, pk.Their)
			}
		}
		o.Class("forgery-experiment")
	}
	if disclosures > 0 {
		o.Class("disclosure-seen")
	}
	o.NonTrivial = disclosures > 0 && rot[0] && rot[1]
	return o
}

func init() { reg("C09disclose", runC09) }

func TestProp_C09_Disclosure(t *testing.T) {
	defer sim.MarkCompleted("C09disclose", false)
	kinds := []string{"pp", "pp", "pp", "badmac", "badmac", "cross", "cross", "cross", "burst", "burst", "send", "send", "dl", "dl", "dl", "refresh", "halfrefresh", "halfrefresh", "smp", "ans", "xk", "age", "flush", "fault", "fault"}
	rapid.Check(t, func(rt *rapid.T) {
		sc := &SessScript{Cfg: genSessCfg(rt)}
		n := rapid.IntRange(2, 30).Draw(rt, "nops")
		for i := 0; i < n; i++ {
			op := genSOp(rt, kinds, 300)
			if op.K == "burst" || op.K == "cross" {
				op.I = rapid.IntRange(0, 5).Draw(rt, "bn")
			}
			sc.Ops = append(sc.Ops, op)
		}
		sim.Judge(rt, "C09disclose", sc)
	})
}

// TestProp_C09_Damaged: a damaged copy of a genuine message reaches the receiver before or after the genuine one,
// at the very start of the session and after 1-3 rounds, in either direction; then enough traffic to retire the pair.
func TestProp_C09_Damaged(t *testing.T) {
	si, sn := sim.Shard()
	idx := 0
	for _, v := range []int{3, 2} {
		for dir := 0; dir < 2; dir++ {
			for k := 0; k < 4; k++ {
				for order := 0; order < 2; order++ {
					for tail := 0; tail < 2; tail++ {
						for pre := 0; pre < 3; pre++ {
							idx++
							if idx%sn != si {
								continue
							}
							var ops []SOp
							for i := 0; i < k; i++ {
								ops = append(ops, SOp{K: "pp", W: (dir + i) & 1, I: 0, L: 7})
							}
							switch pre {
							case 1:
								// one side has sent more than the other: the two key ids of a pair are no longer equal
								ops = append(ops, SOp{K: "burst", W: dir, I: 1}, SOp{K: "send", W: 1 - dir, L: 5}, SOp{K: "flush"}, SOp{K: "burst", W: dir, I: 0})
							case 2:
								// the damaged message is the answer of a half-finished round (the answerer has not rotated yet)
								ops = append(ops, SOp{K: "send", W: 1 - dir, L: 5}, SOp{K: "flush"})
							}
							ops = append(ops, SOp{K: "badmac", W: dir, F: order, I: 3 * k})
							if tail == 0 {
								ops = append(ops, SOp{K: "pp", W: 1 - dir, I: 2, L: 7}, SOp{K: "pp", W: dir, I: 2, L: 7})
							} else {
								ops = append(ops, SOp{K: "burst", W: 1 - dir, I: 2}, SOp{K: "burst", W: dir, I: 2}, SOp{K: "cross", I: 2}, SOp{K: "pp", W: dir, I: 1, L: 7})
							}
							sim.Judge(t, "C09damaged", &SessScript{Cfg: SessCfg{V: v, SeedA: 900, SeedB: 951, KeyA: 0, KeyB: 3, Starter: k & 1}, Ops: ops})
						}
					}
				}
			}
		}
	}
	sim.MarkCompleted("C09damaged", true)
}

func init() { reg("C09damaged", runC09) }
