package props

import (
	"bytes"
	"fmt"
	"math/big"
	"os"
	"strconv"
	"strings"
	"testing"

	"github.com/coyim/otr3"
	"pgregory.net/rapid"

	"verif/harness/ref"
	"verif/harness/sim"
)

// ---- C12: deviant SMP messages never produce success, a crash or a stuck state machine ----

// DStep is one step of a deviant-SMP script.
type DStep struct {
	K string `json:"k"`           // vstart vanswer vabort r1 r2 r3 r4 rabort traffic
	F int    `json:"f,omitempty"` // field index to replace (-1/absent with V=0: honest)
	V int    `json:"v,omitempty"` // value class for the field
	X int    `json:"x,omitempty"` // structural deviation
	Q bool   `json:"q,omitempty"` // with question
}

// C12Script is a generated case.
type C12Script struct {
	Cfg   SessCfg `json:"cfg"`
	Equal bool    `json:"eq"`
	Steps []DStep `json:"steps"`
}

type shadow struct {
	state  string // e1 wait e2 e3 e4
	smp    *ref.SMP
	m1     []*big.Int
	reject string // why the spec-abiding verifier refused (last)
}

type c12run struct {
	m          *Mix
	o          *sim.Outcome
	sc         *C12Script
	sh         shadow
	secretV    []byte
	secretR    []byte
	prover     *ref.SMP // the reference peer's own SMP state
	pRole      int
	lastV      map[uint16][]*big.Int // last SMP message of each type the victim sent
	nTLV       int
	degenerate bool // an out-of-range group element was put on the wire (v2 known-finding class)
	knownSig   string
	// nonMult: an out-of-range element that is not a multiple of p went over the wire (1, p-1, p+1, ...): under
	// version 2 that is the open finding; multiples of p (0, p, 2p, ...) are refused since f8f81ec and are judged
	nonMult  bool
	blind    bool
	knownMsg string
	hits     int
}

func (r *c12run) paramLen() int {
	if r.sc.Cfg.V == 2 {
		return 16
	}
	return 192
}

// victimDraws returns an Rnd function replaying, lazily, the SMP-size draws the victim makes from index `from` on.
func (r *c12run) victimDraws(from int) func() *big.Int {
	pos := from
	return func() *big.Int {
		ds := r.m.A.R.Draws
		for pos < len(ds) {
			d := ds[pos]
			pos++
			if d.N == r.paramLen() {
				return new(big.Int).SetBytes(d.Data)
			}
		}
		return big.NewInt(3)
	}
}

func (r *c12run) victimSecret(initiator bool) *big.Int {
	fv, fr := ref.Fingerprint(r.m.Obs.Long[0]), ref.Fingerprint(r.m.R.Key.PubBytes())
	ssid := r.m.R.SSID[:]
	if initiator {
		return ref.SMPSecret(fv, fr, ssid, r.secretV)
	}
	return ref.SMPSecret(fr, fv, ssid, r.secretV)
}

// collect picks up SMP messages the victim sent (as the reference party received them).
func (r *c12run) collect() {
	for ; r.nTLV < len(r.m.R.TLVsIn); r.nTLV++ {
		t := r.m.R.TLVsIn[r.nTLV]
		if t.Type == ref.TLVSMPAbort {
			// an abort voids whatever the victim sent before it (TLVs are processed in order)
			r.lastV = map[uint16][]*big.Int{}
			continue
		}
		if t.Type >= ref.TLVSMP1 && t.Type <= ref.TLVSMP1Q && t.Type != ref.TLVSMPAbort {
			if _, mp, err := ref.ParseSMPTLV(t); err == nil {
				typ := t.Type
				if typ == ref.TLVSMP1Q {
					typ = ref.TLVSMP1
				}
				r.lastV[typ] = mp
			}
		}
	}
}

// judgeEvents applies the oracle to the SMP events the victim raised during one step.
func (r *c12run) judgeEvents(ev []sim.SMPEv, allowSuccess bool, what string) {
	if r.blind && r.sc.Equal {
		allowSuccess = true
	}
	if r.sh.reject != "" && r.o.Violation == "" {
		// the specification's verifier refuses this message: the victim must not carry the run forward
		for _, e := range ev {
			if e.Ev == otr3.SMPEventAskForSecret || e.Ev == otr3.SMPEventAskForAnswer || e.Ev == otr3.SMPEventInProgress {
				sig := "C12/accepted-invalid"
				if r.sc.Cfg.V == 2 && r.degenerate && r.nonMult {
					sig = "C12/v2-no-group-check"
				}
				if sim.KnownOpen(sig) {
					// an open known finding: remember it, but keep going so that anything else behind it is still seen
					r.knownMsg = fmt.Sprintf("the victim carried the SMP run forward (%v) on %s although a verifier applying the specification's checks rejects: %s", e.Ev, what, r.sh.reject)
					r.knownSig = sig
					break
				}
				r.o.Fail(sig, "the victim carried the SMP run forward (%v) on %s although a verifier applying the specification's checks rejects: %s", e.Ev, what, r.sh.reject)
				return
			}
		}
	}
	succ, _, _, _, _ := smpFlags(ev)
	if succ && !allowSuccess {
		sig := "C12/false-success"
		if r.sc.Cfg.V == 2 && r.degenerate && r.nonMult {
			sig = "C12/v2-no-group-check"
		}
		if sim.KnownOpen(sig) {
			r.knownSig = sig
			r.knownMsg = fmt.Sprintf("the victim reported SMP success after %s although a verifier applying the specification's checks %s (secrets %s); events %v", what, r.whyNot(), matchWord(r.sc.Equal), ev)
			return
		}
		r.o.Fail(sig, "the victim reported SMP success after %s although a verifier applying the specification's checks %s (secrets %s); events %v", what, r.whyNot(), matchWord(r.sc.Equal), ev)
	}
}

func (r *c12run) whyNot() string {
	if r.sh.reject != "" {
		return "rejects: " + r.sh.reject
	}
	return "sees no match"
}

func (r *c12run) settle() {
	r.m.Settle(nil, nil)
	r.collect()
}

func fieldVal(orig *big.Int, v int) *big.Int {
	switch v % 10 {
	case 1:
		return big.NewInt(0)
	case 2:
		return big.NewInt(1)
	case 3:
		return new(big.Int).Sub(ref.P, big.NewInt(1))
	case 4:
		return new(big.Int).Set(ref.P)
	case 5:
		return new(big.Int).Add(ref.P, big.NewInt(1))
	case 6:
		return new(big.Int).Set(ref.Q)
	case 7:
		return new(big.Int).SetBytes(filler(1, 190, v))
	case 8:
		return new(big.Int).Add(orig, big.NewInt(1))
	case 9:
		if orig.Sign() > 0 {
			return new(big.Int).Sub(orig, big.NewInt(1))
		}
		return big.NewInt(2)
	}
	return orig
}

// deviate applies a step's deviation to an honest message; it reports whether anything changed.
func (r *c12run) deviate(st DStep, m []*big.Int, groupIdx map[int]bool) ([]*big.Int, bool) {
	out := append([]*big.Int{}, m...)
	if st.V == 10 && (len(m) == 6 || len(m) == 11) {
		// p-1 in place of g2x / g3x, with a proof of knowledge re-made so that it verifies
		i, ver := 0, byte(1)
		if st.F%2 == 1 {
			i, ver = 3, 2
		}
		if len(m) == 11 {
			ver += 2
		}
		out[i] = new(big.Int).Sub(ref.P, big.NewInt(1))
		out[i+1], out[i+2] = ref.ResealLog(ver, r.refRnd)
		r.degenerate, r.nonMult = true, true
		return out, true
	}
	if st.V == 11 && (len(m) == 6 || len(m) == 11) {
		// 0 (or p) in place of g2x / g3x with the matching degenerate proof
		i, ver := 0, byte(1)
		if st.F%2 == 1 {
			i, ver = 3, 2
		}
		if len(m) == 11 {
			ver += 2
		}
		out[i] = new(big.Int).Mul(ref.P, big.NewInt(int64([]int{0, 0, 1, 1, 2, 2, 3, 3}[st.F%8])))
		out[i+1], out[i+2] = ref.ResealZero(ver)
		r.degenerate = true
		return out, true
	}
	if st.V%10 == 0 || len(m) == 0 {
		return out, false
	}
	i := ((st.F % len(m)) + len(m)) % len(m)
	nv := fieldVal(m[i], st.V)
	if nv.Cmp(m[i]) == 0 {
		return out, false
	}
	out[i] = nv
	if groupIdx[i] && !ref.InGroup(nv) {
		r.degenerate = true
		if new(big.Int).Mod(nv, ref.P).Sign() != 0 {
			r.nonMult = true
		}
	}
	return out, true
}

// sendSMP sends an SMP TLV from the reference peer with optional structural deviation.
func (r *c12run) sendSMP(typ uint16, q string, m []*big.Int, x int) (structural bool) {
	t := ref.SMPTLV(typ, []byte(q), m...)
	if x >= 8 {
		x = 0 // values from 9 up select degenerate provers, not structural changes
	}
	switch x {
	case 1: // count one too many
		off := 0
		if typ == ref.TLVSMP1Q {
			off = len(q) + 1
		}
		copy(t.Val[off:], ref.PutU32(nil, uint32(len(m)+1)))
		structural = true
	case 2: // count one too few (an element is silently ignored / shifted)
		if len(m) > 0 {
			t = ref.SMPTLV(typ, []byte(q), m[:len(m)-1]...)
			structural = true
		}
	case 3: // huge count
		off := 0
		if typ == ref.TLVSMP1Q {
			off = len(q) + 1
		}
		copy(t.Val[off:], []byte{0xff, 0xff, 0xff, 0xff})
		structural = true
	case 4: // truncated value
		if len(t.Val) > 6 {
			t.Val = t.Val[:len(t.Val)-5]
			structural = true
		}
	case 5: // question without terminator
		if typ == ref.TLVSMP1Q {
			t.Val = bytes.ReplaceAll(t.Val[:len(q)+1], []byte{0}, []byte{'x'})
			structural = true
		}
	case 6: // empty value
		t.Val = nil
		structural = true
	case 7: // a well-formed block of no elements at all (behind the question, if there is one)
		t = ref.SMPTLV(typ, []byte(q))
		structural = true
	}
	r.m.fromR(r.m.R.SendOpts(nil, ref.DataOpts{Flags: 1, TLVs: []ref.TLV{t}}))
	return
}

func (r *c12run) refSecret(initiator bool) *big.Int {
	fv, fr := ref.Fingerprint(r.m.Obs.Long[0]), ref.Fingerprint(r.m.R.Key.PubBytes())
	if initiator {
		return ref.SMPSecret(fr, fv, r.m.R.SSID[:], r.secretR)
	}
	return ref.SMPSecret(fv, fr, r.m.R.SSID[:], r.secretR)
}

func (r *c12run) refRnd() *big.Int {
	b := make([]byte, r.paramLen())
	r.m.RRand.Read(b)
	return new(big.Int).SetBytes(b)
}

func runC12(sc *C12Script) *sim.Outcome {
	o := &sim.Outcome{}
	m := newMix(sc.Cfg, 0)
	m.R.SMPPassive = true
	r := &c12run{m: m, o: o, sc: sc, lastV: map[uint16][]*big.Int{}}
	r.secretV = []byte("the shared secret")
	r.secretR = r.secretV
	if !sc.Equal {
		r.secretR = []byte("another secret")
	}
	r.sh.state = "e1"
	if !m.Establish(sc.Cfg.Starter) {
		o.Discard = true
		return o
	}
	for si, st := range sc.Steps {
		if o.Violation != "" {
			return o
		}
		if r.knownSig != "" {
			// the library has taken a turn only the open finding explains (it answered a request the specification's
			// checks refuse): from here on the shadow and the library disagree about the state for that reason alone
			break
		}
		if os.Getenv("VERIF_DEBUG") != "" {
			fmt.Printf("DBG step %d %+v shadow=%s reject=%q events so far %v\n", si, st, r.sh.state, r.sh.reject, m.A.SMP)
		}
		nEv := len(m.A.SMP)
		nDraw := len(m.A.R.Draws)
		switch st.K {
		case "traffic":
			m.ASend([]byte("hello"))
			m.fromR(m.R.Send([]byte("hi")))
			r.settle()
		case "vstartf":
			// the user starts an authentication while the randomness source fails (once, at read +X): nothing is
			// sent, so nothing has begun, whatever state the conversation was in
			m.A.R.FailAt, m.A.R.FailFor, m.A.R.FailMode = m.A.R.Reads()+st.X%8, 1, st.V%2
			out, err := m.A.C.StartAuthenticate("", r.secretV)
			m.fromA("StartAuthenticate", nil, nil, out, err, m.A.Snap(), true)
			m.A.R.Heal()
			if err == nil {
				// the fault fell behind the call: an ordinary start
				o.Discard = true
				return o
			}
			r.hits++
			o.Class("start-failed-on-randomness")
			if len(out) > 0 {
				return o.Fail("C12/failed-start-sent", "StartAuthenticate failed (%v) and yet emitted %d message(s)", err, len(out))
			}
			if r.sh.state != "e1" && st.F%2 == 0 {
				// a run was in progress: the peer gives it up
				r.sendSMP(ref.TLVSMPAbort, "", nil, 0)
				r.prover, r.pRole = nil, 0
				r.sh = shadow{state: "e1", reject: "no run in progress: the start failed"}
			} else if r.sh.state == "e1" {
				r.sh = shadow{state: "e1", reject: "no run in progress: the start failed"}
			} else {
				// ... or carries on with it: the failed restart sent nothing, so for the peer the first run is still on,
				// and its next genuine message must at least not be fatal (the shadow keeps the first run)
				o.Class("failed-restart-run-continues")
				// (the failed call consumed some of the victim's randomness, which the shadow replays by position: from
				// here on the shadow cannot tell what the victim's own values are, so with equal secrets a success is
				// taken as legitimate; crashes and a stuck state machine are still judged)
				r.blind = true
			}
			r.settle()
			r.judgeEvents(m.A.SMP[nEv:], false, "a start that failed for lack of randomness")
		case "vstart":
			if r.sh.state != "e1" {
				r.hits++
				o.Class("start-while-in-progress")
			}
			q := ""
			if st.Q {
				q = "question?"
			}
			out, err := m.A.C.StartAuthenticate(q, r.secretV)
			m.fromA("StartAuthenticate", nil, nil, out, err, m.A.Snap(), true)
			if err == nil {
				r.sh = shadow{state: "e2", smp: &ref.SMP{Secret: r.victimSecret(true), Rnd: r.victimDraws(nDraw)}}
				want := r.sh.smp.Step1()
				r.settle()
				got := r.lastV[ref.TLVSMP1]
				if got == nil {
					return o.Fail("C12/restart-unanswerable", "StartAuthenticate succeeded but what the victim sent leaves the peer without a pending SMP request (an abort follows, or no message 1 was sent): the run can never complete")
				}
				if !sameInts(got, want) {
					return o.Fail("C12/harness-shadow", "harness self-check: the shadow initiator does not reproduce the victim's SMP1")
				}
			}
			r.settle()
			r.judgeEvents(m.A.SMP[nEv:], false, "its own StartAuthenticate")
		case "vanswer":
			delete(r.lastV, ref.TLVSMP2)
			out, err := m.A.C.ProvideAuthenticationSecret(r.secretV)
			m.fromA("ProvideAuthenticationSecret", nil, nil, out, err, m.A.Snap(), true)
			if r.sh.state == "wait" {
				if err != nil {
					return o.Fail("C12/answer-refused", "ProvideAuthenticationSecret failed although an acceptable SMP1 is pending: %v", err)
				}
				r.sh.smp = &ref.SMP{Secret: r.victimSecret(false), Rnd: r.victimDraws(nDraw)}
				want, serr := r.sh.smp.Step2(r.sh.m1)
				r.settle()
				if serr == nil && !sameInts(r.lastV[ref.TLVSMP2], want) {
					return o.Fail("C12/harness-shadow", "harness self-check: the shadow responder does not reproduce the victim's SMP2")
				}
				r.sh.state = "e3"
			} else {
				// an answer nobody (validly) asked for: it must be refused, or answered with an abort at most
				r.hits++
				o.Class("answer-unasked")
				r.sh.state = "e1"
				r.settle()
				if err == nil && r.lastV[ref.TLVSMP2] != nil {
					sig := "C12/answered-without-request"
					if r.sc.Cfg.V == 2 && r.degenerate && r.nonMult {
						sig = "C12/v2-no-group-check"
					}
					if sim.KnownOpen(sig) {
						r.knownSig, r.knownMsg = sig, "ProvideAuthenticationSecret produced SMP message 2 for a request the specification's checks refuse: "+r.whyNot()
					} else {
						return o.Fail(sig, "ProvideAuthenticationSecret produced SMP message 2 although no acceptable request was pending (%s)", r.whyNot())
					}
				}
			}
			r.settle()
			r.judgeEvents(m.A.SMP[nEv:], false, "an answer call")
		case "vabort":
			out, err := m.A.C.AbortAuthentication()
			m.fromA("AbortAuthentication", nil, nil, out, err, m.A.Snap(), true)
			r.sh.state = "e1"
			r.settle()
			r.judgeEvents(m.A.SMP[nEv:], false, "its own abort")
		case "rabort":
			r.sendSMP(ref.TLVSMPAbort, "", nil, 0)
			r.sh.state = "e1"
			r.prover, r.pRole = nil, 0
			r.settle()
			r.judgeEvents(m.A.SMP[nEv:], false, "an abort")
		case "r1":
			r.prover = &ref.SMP{Secret: r.refSecret(true), Rnd: r.refRnd}
			zero, qq := big.NewInt(0), new(big.Int).Set(ref.Q)
			switch st.X % 16 { // honest-but-degenerate provers
			case 9:
				r.prover.ForceA2, r.degenerate = zero, true
				r.nonMult = true
			case 10:
				r.prover.ForceA3, r.degenerate = zero, true
				r.nonMult = true
			case 11:
				r.prover.ForceA2, r.degenerate = qq, true
				r.nonMult = true
			}
			r.pRole = 1
			msg, dev := r.deviate(st, r.prover.Step1(), map[int]bool{0: true, 3: true})
			typ, q := uint16(ref.TLVSMP1), ""
			if st.Q {
				typ, q = ref.TLVSMP1Q, "who?"
			}
			structural := r.sendSMP(typ, q, msg, st.X)
			// shadow
			allow := false
			if r.sh.state == "e1" && !structural {
				v := &ref.SMP{}
				if err := v.Verify1(msg); err == nil {
					r.sh = shadow{state: "wait", m1: msg}
				} else {
					r.sh = shadow{state: "e1", reject: err.Error()}
				}
			} else {
				why := "message not expected in this state"
				if structural {
					why = "malformed element count / value"
				}
				r.sh = shadow{state: "e1", reject: why}
			}
			if dev || structural || st.X%16 >= 9 {
				r.hits++
				o.Class("dev-smp1")
			}
			r.settle()
			r.judgeEvents(m.A.SMP[nEv:], allow, "SMP message 1")
		case "r2":
			m1 := r.lastV[ref.TLVSMP1]
			if m1 == nil {
				continue
			}
			r.prover = &ref.SMP{Secret: r.refSecret(false), Rnd: r.refRnd, NoGroupCheck: true}
			zero := big.NewInt(0)
			switch st.X % 16 {
			case 9:
				r.prover.ForceB2, r.degenerate = zero, true
				r.nonMult = true
			case 10:
				r.prover.ForceB3, r.degenerate = zero, true
				r.nonMult = true
			}
			hon, err := r.prover.Step2(m1)
			if err != nil {
				continue
			}
			r.pRole = 2
			msg, dev := r.deviate(st, hon, map[int]bool{0: true, 3: true, 6: true, 7: true})
			if st.X%16 == 12 && r.sh.state == "e2" {
				// re-sealed degenerate message: Pb = 1, Qb = 0 (or p) with a proof that verifies
				d5, d6 := new(big.Int).Mod(r.refRnd(), ref.Q), new(big.Int).Mod(r.refRnd(), ref.Q)
				qb := big.NewInt(0)
				if st.F%2 == 1 {
					qb = new(big.Int).Set(ref.P)
				}
				msg = r.prover.Reseal2(hon, qb, d5, d6)
				r.degenerate, r.nonMult, dev = true, true, true
			}
			structural := r.sendSMP(ref.TLVSMP2, "", msg, st.X)
			r.settle()
			if r.sh.state == "e2" && !structural {
				if _, _, err := r.sh.smp.Verify2(msg); err == nil {
					if _, err := r.sh.smp.Step3(msg); err == nil {
						r.sh.state, r.sh.reject = "e4", ""
					} else {
						r.sh = shadow{state: "e1", reject: err.Error()}
					}
				} else {
					r.sh = shadow{state: "e1", reject: err.Error()}
				}
			} else {
				r.sh = shadow{state: "e1", reject: "message not expected in this state or malformed"}
			}
			if dev || structural || st.X%16 >= 9 {
				r.hits++
				o.Class("dev-smp2")
			}
			r.settle()
			r.judgeEvents(m.A.SMP[nEv:], false, "SMP message 2")
		case "r3":
			m2 := r.lastV[ref.TLVSMP2]
			if m2 == nil || r.prover == nil || r.pRole != 1 {
				continue
			}
			r.prover.NoGroupCheck = true
			hon, err := r.prover.Step3(m2)
			if err != nil {
				continue
			}
			msg, dev := r.deviate(st, hon, map[int]bool{0: true, 1: true, 5: true})
			structural := r.sendSMP(ref.TLVSMP3, "", msg, st.X)
			r.settle()
			allow := false
			if r.sh.state == "e3" && !structural {
				if _, match, err := r.sh.smp.Step4(msg); err == nil {
					allow = match
					r.sh.reject = ""
				} else {
					r.sh.reject = err.Error()
				}
			} else {
				r.sh.reject = "message not expected in this state or malformed"
			}
			r.sh.state = "e1"
			if dev || structural {
				r.hits++
				o.Class("dev-smp3")
			}
			r.settle()
			r.judgeEvents(m.A.SMP[nEv:], allow, "SMP message 3")
			if allow && !dev && !structural && sc.Equal {
				if s, _, _, _, _ := smpFlags(m.A.SMP[nEv:]); !s {
					return o.Fail("C12/honest-rejected", "an honest SMP3 with equal secrets did not make the victim report success; events %v", m.A.SMP[nEv:])
				}
			}
			r.prover, r.pRole = nil, 0
		case "r3z":
			// message 3 for a victim whose own Qb is 0 (it accepted g2a = 0): forces a division by zero if it got that far
			m2 := r.lastV[ref.TLVSMP2]
			if m2 == nil || r.prover == nil || r.pRole != 1 || len(m2) != 11 {
				continue
			}
			d5, d6 := new(big.Int).Mod(r.refRnd(), ref.Q), new(big.Int).Mod(r.refRnd(), ref.Q)
			r.sendSMP(ref.TLVSMP3, "", ref.ZeroQbMessage3(r.prover.SharedG3(m2[3]), d5, d6), 0)
			r.degenerate = true
			r.settle()
			r.sh.reject = "the run rests on an out-of-range element"
			r.sh.state = "e1"
			r.hits++
			o.Class("dev-smp3-zero-qb")
			r.judgeEvents(m.A.SMP[nEv:], false, "SMP message 3 after g2a = 0")
			r.prover, r.pRole = nil, 0
		case "r4":
			m3 := r.lastV[ref.TLVSMP3]
			if m3 == nil || r.prover == nil || r.pRole != 2 {
				continue
			}
			hon, _, err := r.prover.Step4(m3)
			if err != nil {
				continue
			}
			msg, dev := r.deviate(st, hon, map[int]bool{0: true})
			structural := r.sendSMP(ref.TLVSMP4, "", msg, st.X)
			r.settle()
			allow := false
			if r.sh.state == "e4" && !structural {
				if match, err := r.sh.smp.Step5(msg); err == nil {
					allow = match
					r.sh.reject = ""
				} else {
					r.sh.reject = err.Error()
				}
			} else {
				r.sh.reject = "message not expected in this state or malformed"
			}
			r.sh.state = "e1"
			if dev || structural {
				r.hits++
				o.Class("dev-smp4")
			}
			r.settle()
			r.judgeEvents(m.A.SMP[nEv:], allow, "SMP message 4")
			if allow && !dev && !structural && sc.Equal {
				if s, _, _, _, _ := smpFlags(m.A.SMP[nEv:]); !s {
					return o.Fail("C12/honest-rejected", "an honest SMP4 with equal secrets did not make the victim report success; events %v", m.A.SMP[nEv:])
				}
				o.Class("honest-run-completed")
			}
			r.prover, r.pRole = nil, 0
		}
	}
	if o.Violation != "" {
		return o
	}
	if r.knownSig != "" {
		return o.Fail(r.knownSig, "%s", r.knownMsg)
	}
	// not stuck: a fresh honest run with equal secrets succeeds on both sides
	r.settle()
	mix := len(sc.Steps)
	for _, st := range sc.Steps {
		mix += st.F + st.V + st.X
	}
	if r.sh.state == "e1" && !r.blind && mix%2 == 0 {
		// by the specification's state machine the victim is idle again (it aborted or finished whatever was going on):
		// the peer starts afresh without announcing an abort first
		o.Class("fresh-run-without-abort")
	} else {
		m.fromR(m.R.SendOpts(nil, ref.DataOpts{Flags: 1, TLVs: []ref.TLV{ref.SMPTLV(ref.TLVSMPAbort, nil)}}))
		r.settle()
	}
	m.R.SMPPassive = false
	nEv := len(m.A.SMP)
	m.asked = false
	m.fromR(m.R.SMPStart(r.secretV, ""))
	m.Settle(nil, nil)
	if !m.asked {
		return o.Fail("C12/stuck", "after the deviant traffic a fresh SMP1 did not make the victim ask for the secret; events %v", m.A.SMP[nEv:])
	}
	out, err := m.A.C.ProvideAuthenticationSecret(r.secretV)
	m.fromA("ProvideAuthenticationSecret", nil, nil, out, err, m.A.Snap(), true)
	m.Settle(nil, nil)
	if s, _, _, _, _ := smpFlags(m.A.SMP[nEv:]); !s || !m.R.SMPResult.Match {
		return o.Fail("C12/stuck", "after the deviant traffic a fresh honest run with equal secrets did not succeed (victim events %v, peer %+v)", m.A.SMP[nEv:], m.R.SMPResult)
	}
	// and the other way round (every other case, to bound the cost)
	if len(sc.Steps)%2 == 1 {
		o.NonTrivial = r.hits > 0
		o.Class(fmt.Sprintf("v%d", sc.Cfg.V))
		return o
	}
	nEv = len(m.A.SMP)
	m.R.AutoSecret = r.secretV
	out, err = m.A.C.StartAuthenticate("", r.secretV)
	m.fromA("StartAuthenticate", nil, nil, out, err, m.A.Snap(), true)
	m.Settle(nil, nil)
	if s, _, _, _, _ := smpFlags(m.A.SMP[nEv:]); !s {
		return o.Fail("C12/stuck", "after the deviant traffic a fresh run started by the victim did not succeed (events %v)", m.A.SMP[nEv:])
	}
	o.NonTrivial = r.hits > 0
	o.Class(fmt.Sprintf("v%d", sc.Cfg.V))
	if r.degenerate {
		o.Class("out-of-range-element")
	}
	return o
}

func sameInts(a, b []*big.Int) bool {
	if len(a) != len(b) {
		return false
	}
	for i := range a {
		if a[i].Cmp(b[i]) != 0 {
			return false
		}
	}
	return true
}

func init() {
	reg("C12deviant", runC12)
	reg("C12fields", runC12)
	reg("C12structure", runC12)
	reg("C12degenerate", runC12)
	reg("C12usercalls", runC12)
}

func genDStep(rt *rapid.T, kinds []string) DStep {
	st := DStep{K: rapid.SampledFrom(kinds).Draw(rt, "k")}
	if strings.HasPrefix(st.K, "r") && st.K != "rabort" {
		switch rapid.IntRange(1, 6).Draw(rt, "devkind") {
		case 6:
			st.V, st.F = rapid.SampledFrom([]int{10, 11}).Draw(rt, "reseal"), rapid.IntRange(0, 7).Draw(rt, "which")
		case 1, 2, 3:
			st.F = rapid.IntRange(0, 10).Draw(rt, "field")
			st.V = rapid.IntRange(1, 9).Draw(rt, "val")
		case 4:
			st.X = rapid.IntRange(1, 6).Draw(rt, "struct")
		case 5:
			st.X = rapid.IntRange(9, 12).Draw(rt, "degenerate")
		}
	}
	st.Q = rapid.IntRange(0, 3).Draw(rt, "q") == 0
	return st
}

func TestProp_C12_Deviant(t *testing.T) {
	defer sim.MarkCompleted("C12deviant", false)
	// sequences biased towards protocol order, with out-of-order steps mixed in
	rapid.Check(t, func(rt *rapid.T) {
		sc := &C12Script{Cfg: genSessCfg(rt), Equal: rapid.Bool().Draw(rt, "eq")}
		sc.Cfg.FragA, sc.Cfg.FragB = 0, 0
		n := rapid.IntRange(1, 3).Draw(rt, "nphases")
		honest := func(k string) DStep { return DStep{K: k, Q: rapid.IntRange(0, 3).Draw(rt, "q") == 0} }
		for i := 0; i < n; i++ {
			slot := rapid.IntRange(0, 2).Draw(rt, "slot") // which message of the run deviates (2: none)
			pick := func(k string, at int) DStep {
				if slot == at {
					return genDStep(rt, []string{k})
				}
				return honest(k)
			}
			switch rapid.IntRange(0, 4).Draw(rt, "phase") {
			case 0, 1: // victim responds: SMP1, answer, SMP3
				sc.Steps = append(sc.Steps, pick("r1", 0), honest("vanswer"), pick("r3", 1))
			case 2, 3: // victim initiates: start, SMP2, SMP4
				sc.Steps = append(sc.Steps, honest("vstart"), pick("r2", 0), pick("r4", 1))
			default: // out-of-sequence messages and user calls
				k := rapid.IntRange(1, 5).Draw(rt, "nany")
				for j := 0; j < k; j++ {
					sc.Steps = append(sc.Steps, genDStep(rt, []string{"vstart", "vanswer", "vabort", "r1", "r2", "r3", "r4", "rabort", "traffic"}))
				}
			}
		}
		sim.Judge(rt, "C12deviant", sc)
	})
}

// TestProp_C12_Fields: every field of every SMP message x every boundary value x both versions.
func TestProp_C12_Fields(t *testing.T) {
	si, sn := sim.Shard()
	idx := 0
	type slot struct {
		pre  []DStep
		k    string
		n    int
		post []DStep
	}
	slots := []slot{
		{nil, "r1", 6, []DStep{{K: "vanswer"}, {K: "r3"}}},
		{[]DStep{{K: "r1"}, {K: "vanswer"}}, "r3", 8, nil},
		{[]DStep{{K: "vstart"}}, "r2", 11, []DStep{{K: "r4"}}},
		{[]DStep{{K: "vstart"}, {K: "r2"}}, "r4", 3, nil},
	}
	vals := []int{1, 2, 3, 4, 5, 6, 7, 8, 9, 10}
	for _, v := range []int{3, 2} {
		for _, sl := range slots {
			for f := 0; f < sl.n; f++ {
				for _, val := range vals {
					if val == 10 && (f > 1 || sl.n == 8 || sl.n == 3) {
						continue
					}
					if !sim.Thorough() && val != 10 && (f*7+val)%3 != 0 {
						continue
					}
					idx++
					if idx%sn != si {
						continue
					}
					sc := &C12Script{Cfg: SessCfg{V: v, SeedA: 40, SeedB: 51, KeyA: 0, KeyB: 3}, Equal: true}
					sc.Steps = append(append(append([]DStep{}, sl.pre...), DStep{K: sl.k, F: f, V: val}), sl.post...)
					sim.Judge(t, "C12fields", sc)
				}
			}
		}
	}
	sim.MarkCompleted("C12fields", sim.Thorough())
}

// TestProp_C12_Structure: every structural deviation (element count one too many, one too few, huge, zero; value cut
// short; question without terminator; empty record) in every message slot, the first message with and without a
// question, both versions; afterwards a fresh run with equal secrets must succeed.
func TestProp_C12_Structure(t *testing.T) {
	si, sn := sim.Shard()
	idx := 0
	type slot struct {
		pre  []DStep
		k    string
		q    bool
		post []DStep
	}
	slots := []slot{
		{nil, "r1", false, nil},
		{nil, "r1", true, nil},
		{[]DStep{{K: "r1"}, {K: "vanswer"}}, "r3", false, nil},
		{[]DStep{{K: "r1", Q: true}, {K: "vanswer"}}, "r3", false, nil},
		{[]DStep{{K: "vstart"}}, "r2", false, nil},
		{[]DStep{{K: "vstart"}, {K: "r2"}}, "r4", false, nil},
		{[]DStep{{K: "vstart"}}, "r1", true, nil}, // a request with a question while the victim waits for an answer to its own
	}
	for _, v := range []int{3, 2} {
		for _, sl := range slots {
			for x := 1; x <= 7; x++ {
				if x == 5 && !sl.q {
					continue
				}
				idx++
				if idx%sn != si {
					continue
				}
				sc := &C12Script{Cfg: SessCfg{V: v, SeedA: 44, SeedB: 55, KeyA: 0, KeyB: 3}, Equal: true}
				sc.Steps = append(append(append([]DStep{}, sl.pre...), DStep{K: sl.k, X: x, Q: sl.q}), sl.post...)
				sim.Judge(t, "C12structure", sc)
			}
		}
	}
	sim.MarkCompleted("C12structure", true)
}

var _ = otr3.SMPEventSuccess

// degenerateScripts: honest-but-degenerate provers (a chosen exponent forced to 0 or q,
// so that g2a/g3a/g2b/g3b equal 1 with perfectly valid proofs), both roles, both versions,
// equal and different secrets.
func degenerateScripts() []*C12Script {
	var out []*C12Script
	for _, v := range []int{3, 2} {
		for _, eq := range []bool{false, true} {
			for _, x := range []int{9, 10, 11} {
				out = append(out, &C12Script{Cfg: SessCfg{V: v, SeedA: 60, SeedB: 71, KeyA: 1, KeyB: 4}, Equal: eq,
					Steps: []DStep{{K: "r1", X: x}, {K: "vanswer"}, {K: "r3"}}})
			}
			for f := 0; f < 8; f++ { // 0, p, 2p, 3p in place of g2x and of g3x
				out = append(out, &C12Script{Cfg: SessCfg{V: v, SeedA: 64, SeedB: 75, KeyA: 1, KeyB: 4}, Equal: eq,
					Steps: []DStep{{K: "r1", V: 11, F: f}, {K: "vanswer"}, {K: "r3z"}}})
				out = append(out, &C12Script{Cfg: SessCfg{V: v, SeedA: 66, SeedB: 77, KeyA: 1, KeyB: 4}, Equal: eq,
					Steps: []DStep{{K: "vstart"}, {K: "r2", V: 11, F: f}, {K: "r4"}}})
			}
			for _, x := range []int{9, 10, 12} {
				out = append(out, &C12Script{Cfg: SessCfg{V: v, SeedA: 62, SeedB: 73, KeyA: 1, KeyB: 4}, Equal: eq,
					Steps: []DStep{{K: "vstart"}, {K: "r2", X: x}, {K: "r4"}}})
			}
		}
	}
	return out
}

func TestProp_C12_Degenerate(t *testing.T) {
	si, sn := sim.Shard()
	for i, sc := range degenerateScripts() {
		if i%sn == si {
			sim.Judge(t, "C12degenerate", sc)
		}
	}
	sim.MarkCompleted("C12degenerate", true)
}

// TestKnown_C12_V2GroupCheck is the witness of the open finding C12/v2-no-group-check.
func TestKnown_C12_V2GroupCheck(t *testing.T) {
	sc := &C12Script{Cfg: SessCfg{V: 2, SeedA: 60, SeedB: 71, KeyA: 1, KeyB: 4}, Equal: false,
		Steps: []DStep{{K: "r1", X: 9}, {K: "vanswer"}, {K: "r3"}}}
	o, _ := sim.Guard(func() (*sim.Outcome, error) { return runC12(sc), nil })
	if o.Violation != "" && o.Sig == "C12/v2-no-group-check" {
		fmt.Println("WITNESS-FAILS C12/v2-no-group-check:", strings.SplitN(o.Violation, "\n", 2)[0])
	} else if o.Violation != "" {
		fmt.Println("WITNESS-OTHER", o.Sig, o.Violation)
		t.Fatalf("witness failed differently: %s", o.Sig)
	} else {
		fmt.Println("WITNESS-PASSES C12/v2-no-group-check")
	}
}

// TestProp_C12_UserCalls: user calls made in SMP states that do not expect them, followed by an honest
// run that must still succeed (equal secrets), both versions.
func TestProp_C12_UserCalls(t *testing.T) {
	si, sn := sim.Shard()
	seqs := [][]string{
		{"vstart", "vstart", "r2", "r4"},
		{"vstart", "vstart", "vstart", "r2", "r4"},
		{"r1", "vstart", "r2", "r4"},
		{"r1", "vanswer", "vstart", "r2", "r4"},
		{"vstart", "r2", "vstart", "r2", "r4"},
		{"vstart", "vabort", "vstart", "r2", "r4"},
		{"vstart", "vanswer", "vstart", "r2", "r4"},
		{"r1", "vabort", "r1", "vanswer", "r3"},
		{"vanswer", "r1", "vanswer", "r3"},
		{"vabort", "vabort", "r1", "vanswer", "r3"},
		{"r1", "r1", "rabort", "r1", "vanswer", "r3"},
		{"vstart", "rabort", "vstart", "r2", "r4"},
		{"r1", "vanswer", "vanswer", "rabort", "r1", "vanswer", "r3"},
		{"r1", "r1*", "vanswer", "r3"},
		{"r1", "r1*", "vanswer", "rabort", "r1", "vanswer", "r3"},
		{"vstart", "r2*", "r2", "r4"},
		{"vstart", "r2", "r2*", "r4"},
		{"r1", "vanswer", "r1*", "r3"},
		// both sides start at the same moment: each refuses the other's first message; afterwards either can start afresh
		{"vstart", "r1"},
		{"vstart", "r1", "r1", "vanswer", "r3"},
		{"vstart", "r1", "vstart", "r2", "r4"},
		{"vstart", "r2", "r1", "r1", "vanswer", "r3"},
		// a start that fails for lack of randomness leaves nothing behind
		{"vstartf", "r2", "r1", "vanswer", "r3"},
		{"vstartf:1", "r1", "vanswer", "r3"},
		{"vstartf:2", "r2", "vstart", "r2", "r4"},
		{"vstartf:3", "vstart", "r2", "r4"},
		{"vstartf:4", "r2", "r4", "r1", "vanswer", "r3"},
		{"vstartf:5", "r1", "vanswer", "r3"},
		{"r1", "vstartf", "r1", "vanswer", "r3"},
		// a restart that fails while a run is in progress; the peer's next genuine message of the first run arrives
		{"vstart", "vstartf/1", "r2", "r4"},
		{"vstart", "vstartf/1:1", "r2", "r4"},
		{"vstart", "r2", "vstartf/1", "r4"},
		{"r1", "vanswer", "vstartf/1", "r3"},
		{"r1", "vanswer", "vstartf/1:2", "r3"},
	}
	idx := 0
	for _, v := range []int{3, 2} {
		for _, q := range []bool{false, true} {
			for _, seq := range seqs {
				idx++
				if idx%sn != si {
					continue
				}
				sc := &C12Script{Cfg: SessCfg{V: v, SeedA: 80, SeedB: 91, KeyA: 2, KeyB: 5}, Equal: true}
				for _, k := range seq {
					st := DStep{K: strings.TrimSuffix(k, "*"), Q: q}
					if strings.HasSuffix(k, "*") {
						st.F, st.V = 0, 2 // g2a / g2b := 1 without a matching proof
					}
					if i := strings.Index(k, ":"); i > 0 {
						st.K = k[:i]
						st.X, _ = strconv.Atoi(k[i+1:])
					}
					if strings.HasSuffix(st.K, "/1") {
						st.K, st.F = strings.TrimSuffix(st.K, "/1"), 1
					}
					sc.Steps = append(sc.Steps, st)
				}
				o := sim.Judge(t, "C12usercalls", sc)
				_ = o
			}
		}
	}
	sim.MarkCompleted("C12usercalls", true)
}
