package props

import (
	"crypto/sha256"
	"encoding/hex"
	"fmt"
	"github.com/coyim/otr3"
	"runtime"
	"sync"
	"sync/atomic"
	"testing"
	"time"

	"pgregory.net/rapid"

	"verif/harness/sim"
)

// ---- C20: independent conversations do not interfere, also when run concurrently ----

// ConcScript: K independent lifecycle scripts, run alone and then all at once.
type ConcScript struct {
	Pairs  []*LifeScript `json:"pairs"`
	Yield  int           `json:"yield"` // seed for the places where goroutines yield
	Rounds int           `json:"rounds,omitempty"`
}

// transcript runs one scripted pair and returns a digest of everything observable:
// every call with its input, plaintext, error, output bytes and events.
func transcript(sc *LifeScript, yield uint32, env *concEnv) (string, int) {
	o := &sim.Outcome{}
	s := newLifeSess(sc, o)
	s.W.KeepRaw = true
	// every pair's users type the same pass phrases, and the application keeps them in one place
	s.secrets = env.secrets
	env.mu.Lock()
	env.worlds = append(env.worlds, s.W)
	env.mu.Unlock()
	h := sha256.New()
	calls := 0
	prev := s.W.OnCall
	x := yield
	s.W.OnCall = func(c *sim.Call) {
		prev(c)
		calls++
		p := s.W.P[c.Who]
		fmt.Fprintf(h, "%d.%s in=%x plain=%v %x err=%v enc=%v smp=%v sec=%v sym=%v|", c.Who, c.Name, c.In, c.HasPl, c.Plain, c.Err, c.EncAft, c.NewSMP(p), c.NewSec(p), c.NewSym(p))
		for _, e := range c.NewMsg(p) {
			fmt.Fprintf(h, "(%v %x %s)", e.Ev, e.Msg, e.Err)
		}
		for _, m := range c.Out {
			fmt.Fprintf(h, "out=%x|", m)
		}
		if yield != 0 {
			x = x*1664525 + 1013904223
			if x>>28 < 6 {
				runtime.Gosched()
			}
		}
	}
	for _, op := range sc.Ops {
		switch op.K {
		case "frag":
			s.W.P[op.W&1].C.SetFragmentSize(uint16(op.L))
		case "keys":
			// serialisation and fingerprints of long-term keys touch package-level tables
			k := s.W.P[op.W&1].Key
			fmt.Fprintf(h, "key=%x fp=%x|", k.Serialize(), k.PublicKey().Fingerprint())
		default:
			s.Exec(op)
		}
	}
	s.Exec(SOp{K: "flush"})
	return hex.EncodeToString(h.Sum(nil)), calls
}

// concEnv is what the conversations of one case have in common on the application's side.
type concEnv struct {
	mu      sync.Mutex
	worlds  []*sim.World
	secrets [][]byte
	orig    [][]byte
}

func newConcEnv() *concEnv {
	e := &concEnv{secrets: [][]byte{[]byte("correct horse"), []byte("battery staple"), {}, []byte("x")}}
	for _, s := range e.secrets {
		e.orig = append(e.orig, append([]byte{}, s...))
	}
	return e
}

// intact checks what belongs to the application: the buffers it passed in and the messages it was handed.
func (e *concEnv) intact(o *sim.Outcome, when string) bool {
	for i := range e.secrets {
		if string(e.secrets[i]) != string(e.orig[i]) {
			o.Fail("C20/caller-buffer-modified", "%s: the pass phrase buffer the application passed to several conversations (%q) now reads %q: a conversation wrote into memory it was only given to read, which the other conversations read too", when, e.orig[i], e.secrets[i])
			return false
		}
	}
	for _, w := range e.worlds {
		if msg := w.Changed(); msg != "" {
			o.Fail("C20/returned-message-modified", "%s: %s: the memory of a message already handed to the application was written to again (by the same or another conversation)", when, msg)
			return false
		}
	}
	return true
}

func runConc(sc *ConcScript) *sim.Outcome {
	o := &sim.Outcome{}
	env := newConcEnv()
	k := len(sc.Pairs)
	solo := make([]string, k)
	totalCalls := 0
	for i, p := range sc.Pairs {
		var n int
		solo[i], n = transcript(p, 0, env)
		totalCalls += n
		if !env.intact(o, fmt.Sprintf("after pair %d ran alone", i)) {
			return o
		}
		if again, _ := transcript(p, 0, env); again != solo[i] {
			return o.Fail("C20/harness-nondeterministic", "harness self-check: pair %d run twice alone gives different transcripts", i)
		}
	}
	rounds := sc.Rounds
	if rounds < 1 {
		rounds = 1
	}
	maxOverlap := 0
	for round := 0; round < rounds; round++ {
		conc := make([]string, k)
		var clock int64
		starts, ends := make([]int64, k), make([]int64, k)
		var wg sync.WaitGroup
		gate := make(chan struct{})
		for i := range sc.Pairs {
			wg.Add(1)
			go func(i int) {
				defer wg.Done()
				<-gate
				starts[i] = atomic.AddInt64(&clock, 1)
				conc[i], _ = transcript(sc.Pairs[i], uint32(sc.Yield+i*7919+round*104729)|1, env)
				ends[i] = atomic.AddInt64(&clock, 1)
			}(i)
		}
		close(gate)
		wg.Wait()
		if !env.intact(o, "after all pairs ran at the same time") {
			return o
		}
		for i := range conc {
			if conc[i] != solo[i] {
				return o.Fail("C20/interference", "conversation pair %d of %d behaves differently when the others run at the same time (transcript digest %s.. instead of %s..)", i, k, conc[i][:12], solo[i][:12])
			}
		}
		// how many pairs were running at the same logical moment
		for t := int64(1); t <= clock; t++ {
			n := 0
			for i := 0; i < k; i++ {
				if starts[i] <= t && t <= ends[i] {
					n++
				}
			}
			if n > maxOverlap {
				maxOverlap = n
			}
		}
	}
	o.Class(fmt.Sprintf("pairs-%d", k))
	if maxOverlap >= 4 {
		o.Class("overlap>=4")
	}
	o.NonTrivial = maxOverlap >= 4 && totalCalls >= 4*k
	return o
}

func init() { reg("C20transcripts", runConc); reg("C20race", runConc) }

var concKinds = append([]string{"keys", "keys", "dup", "dup", "garbage", "garbage", "garbage", "errmsg", "send", "send", "sess", "smp", "ans", "pp"}, lifeKinds...)

func genConc(rt *rapid.T, maxPairs, maxOps int) *ConcScript {
	sc := &ConcScript{Yield: rapid.IntRange(1, 1<<20).Draw(rt, "yield")}
	k := rapid.IntRange(4, maxPairs).Draw(rt, "pairs")
	for i := 0; i < k; i++ {
		p := genLife(rt, maxOps)
		// different version policies per pair make shared scratch buffers visible (query, whitespace tag)
		p.PolA = (p.PolA &^ 3) | []int{1, 2, 3}[i%3] | sim.PolSendWS
		p.PolB = (p.PolB &^ 3) | []int{3, 2, 1, 3}[i%4] | sim.PolWSStart
		p.Cfg.SeedA += uint64(i) * 2000
		p.Cfg.SeedB += uint64(i) * 2000
		extra := rapid.IntRange(0, maxOps).Draw(rt, "extra")
		for j := 0; j < extra; j++ {
			p.Ops = append(p.Ops, genSOp(rt, concKinds, 400))
		}
		p.Ops = append([]SOp{{K: "send", W: 0, L: 10}, {K: "flush"}, {K: "sess", W: i & 1}, {K: "pp", W: 0, I: 1, L: 5}, {K: "garbage", W: i & 1, L: i}, {K: "flush"}, {K: "smp", W: i & 1, X: 0}, {K: "flush"}, {K: "ans", W: 1 - i&1, X: 0}, {K: "flush"}, {K: "keys", W: 0}}, p.Ops...)
		sc.Pairs = append(sc.Pairs, p)
	}
	return sc
}

func TestProp_C20_Transcripts(t *testing.T) {
	defer sim.MarkCompleted("C20transcripts", false)
	runtime.GOMAXPROCS(16)
	rapid.Check(t, func(rt *rapid.T) {
		sc := genConc(rt, 16, 25)
		sc.Rounds = 2
		sim.Judge(rt, "C20transcripts", sc)
	})
}

// TestProp_C20_Race is the same property on a binary built with the race detector (fewer, smaller cases).
func TestProp_C20_Race(t *testing.T) {
	defer sim.MarkCompleted("C20race", false)
	runtime.GOMAXPROCS(16)
	rapid.Check(t, func(rt *rapid.T) {
		sc := genConc(rt, 8, 6)
		sim.Judge(rt, "C20race", sc)
	})
}

// ---- conversations on the library's default randomness (Conversation.Rand unset) ----

// SysScript: K pairs, each with its own keys and policies, all using the operating system's generator, run
// at the same time. Nothing here is reproducible byte for byte, so what is judged is what must hold for any
// random bytes: every call succeeds, every text arrives intact, SMP with equal secrets succeeds, and no two
// sessions share a session id (which independent randomness makes a 2^-64 event).
type SysScript struct {
	Pairs  int  `json:"pairs"`
	Rounds int  `json:"rounds"`
	V      int  `json:"v"`
	Shared bool `json:"shared,omitempty"` // all A sides are conversations of one account: they share one freshly loaded key object
}

func sysPair(i int, sc *SysScript, account *otr3.DSAPrivateKey) (ssids [][8]byte, err error) {
	defer func() {
		if r := recover(); r != nil {
			err = fmt.Errorf("panic: %v", r)
		}
	}()
	pol := sim.PolV3
	if sc.V == 2 || (sc.V == 0 && i%3 == 1) {
		pol = sim.PolV2
	}
	w := sim.NewWorld(sim.PartyOpts{Name: "A", KeyI: (2 * i) % sim.PoolSize(), KeyObj: account, Pol: pol, SysRand: true}, sim.PartyOpts{Name: "B", KeyI: (2*i + 1) % sim.PoolSize(), Pol: pol, SysRand: true})
	w.OnCall = func(c *sim.Call) {
		if c.Err != nil && err == nil {
			err = fmt.Errorf("%s.%s: %v", w.P[c.Who].Name, c.Name, c.Err)
		}
	}
	for r := 0; r < sc.Rounds && err == nil; r++ {
		// a query shortly after a key exchange is taken for an echo of the previous one
		w.AgeClock(0, 3*time.Minute)
		w.AgeClock(1, 3*time.Minute)
		if !w.Handshake(r & 1) {
			return nil, fmt.Errorf("round %d: the key exchange did not complete", r)
		}
		sa, sb := w.P[0].C.GetSSID(), w.P[1].C.GetSSID()
		if sa != sb {
			return nil, fmt.Errorf("round %d: the two ends have different session ids", r)
		}
		ssids = append(ssids, sa)
		for k := 0; k < 3; k++ {
			for d := 0; d < 2; d++ {
				text := []byte(fmt.Sprintf("pair %d round %d text %d from %d", i, r, k, d))
				w.Send(d, text)
				got := false
				for _, c := range w.Flush(1000) {
					if c.Who == 1-d && c.HasPl {
						if string(c.Plain) != string(text) {
							return nil, fmt.Errorf("round %d: text arrived as %q", r, c.Plain)
						}
						got = true
					}
				}
				if !got && err == nil {
					return nil, fmt.Errorf("round %d: a text did not arrive", r)
				}
			}
		}
		nA, nB := len(w.P[0].SMP), len(w.P[1].SMP)
		w.SMPStart(r&1, "", []byte("the same secret"))
		w.Flush(1000)
		w.SMPAnswer(1-r&1, []byte("the same secret"))
		w.Flush(1000)
		ok := 0
		for _, e := range append(append([]sim.SMPEv{}, w.P[0].SMP[nA:]...), w.P[1].SMP[nB:]...) {
			if e.Ev == otr3.SMPEventSuccess {
				ok++
			}
		}
		if ok != 2 && err == nil {
			return nil, fmt.Errorf("round %d: SMP with equal secrets succeeded on %d of 2 sides", r, ok)
		}
		if r%2 == 1 {
			w.End(0)
			w.Flush(1000)
			w.End(1)
			w.Flush(1000)
		}
	}
	return ssids, err
}

func runSys(sc *SysScript) *sim.Outcome {
	o := &sim.Outcome{}
	k := sc.Pairs
	res := make([][][8]byte, k)
	errs := make([]error, k)
	var account *otr3.DSAPrivateKey
	if sc.Shared {
		account = sim.PoolKey(0) // parsed just now: nothing has used this object yet
		o.Class("one-account-key-object")
	}
	var wg sync.WaitGroup
	gate := make(chan struct{})
	for i := 0; i < k; i++ {
		wg.Add(1)
		go func(i int) {
			defer wg.Done()
			<-gate
			res[i], errs[i] = sysPair(i, sc, account)
		}(i)
	}
	close(gate)
	wg.Wait()
	if sc.Shared {
		// first use of a freshly loaded account key by many conversations at once (a client that starts OTR with all its
		// contacts right after login), several times over: every conversation must see the same, correct key
		for rep := 0; rep < 6; rep++ {
			fresh := sim.PoolKey(rep % sim.PoolSize())
			want := sim.PoolKey(rep % sim.PoolSize()).PublicKey().Fingerprint()
			bad := make([]string, 16)
			var wg2 sync.WaitGroup
			gate2 := make(chan struct{})
			for g := 0; g < 16; g++ {
				wg2.Add(1)
				go func(g int) {
					defer wg2.Done()
					defer func() {
						if r := recover(); r != nil {
							bad[g] = fmt.Sprint("panic: ", r)
						}
					}()
					<-gate2
					if g%2 == 0 {
						if fp := fresh.PublicKey().Fingerprint(); string(fp) != string(want) {
							bad[g] = fmt.Sprintf("fingerprint %x instead of %x", fp, want)
							return
						}
					}
					w := sim.NewWorld(sim.PartyOpts{Name: "A", KeyObj: fresh, Pol: sim.PolV3, SysRand: true}, sim.PartyOpts{Name: "B", KeyI: (rep + 1 + g) % sim.PoolSize(), Pol: sim.PolV3, SysRand: true})
					if !w.Handshake(g & 1) {
						bad[g] = "its key exchange did not complete"
						return
					}
					if fp := w.P[1].C.GetTheirKey().Fingerprint(); string(fp) != string(want) {
						bad[g] = fmt.Sprintf("the peer learnt fingerprint %x instead of %x", fp, want)
					}
				}(g)
			}
			close(gate2)
			wg2.Wait()
			for g, b := range bad {
				if b != "" {
					return o.Fail("C20/shared-key-object", "16 conversations made their first use of one freshly loaded account key at the same moment; conversation %d: %s", g, b)
				}
			}
		}
	}
	seen := map[[8]byte]int{}
	for i := 0; i < k; i++ {
		if errs[i] != nil {
			return o.Fail("C20/sysrand-failure", "conversation pair %d of %d, all on the default randomness source and running at the same time: %v", i, k, errs[i])
		}
		for _, id := range res[i] {
			if j, dup := seen[id]; dup {
				return o.Fail("C20/sysrand-shared", "pairs %d and %d, running at the same time on the default randomness source, arrived at the same session id %x", j, i, id)
			}
			seen[id] = i
		}
	}
	o.Class(fmt.Sprintf("pairs-%d", k))
	o.NonTrivial = k >= 4 && len(seen) >= 4
	return o
}

func init() { reg("C20sysrand", runSys) }

// TestProp_C20_SysRand runs on the race-detector build as well as on the plain one.
func TestProp_C20_SysRand(t *testing.T) {
	defer sim.MarkCompleted("C20sysrand", false)
	runtime.GOMAXPROCS(16)
	maxPairs := 16
	if sim.Thorough() {
		maxPairs = 32
	}
	rapid.Check(t, func(rt *rapid.T) {
		sc := &SysScript{Pairs: rapid.IntRange(8, maxPairs).Draw(rt, "pairs"), Rounds: rapid.IntRange(1, 3).Draw(rt, "rounds"), V: rapid.SampledFrom([]int{0, 3, 2}).Draw(rt, "v"), Shared: rapid.SampledFrom([]bool{true, true, false}).Draw(rt, "shared")}
		sim.Judge(rt, "C20sysrand", sc)
	})
}

// ---- one conversation's randomness source takes its time ----

// StallCase: conversation pair X's randomness source blocks at read K of party Who during its key exchange; while it
// is parked there, an unrelated pair (other keys, other randomness) must be able to run a whole session.
type StallCase struct {
	V   int `json:"v"`
	Who int `json:"who"`
	K   int `json:"k"`
}

func runStall(c *StallCase) *sim.Outcome {
	o := &sim.Outcome{}
	pol := sim.PolV3
	if c.V == 2 {
		pol = sim.PolV2
	}
	x := sim.NewWorld(sim.PartyOpts{Name: "XA", Seed: 7100, KeyI: 0, Pol: pol}, sim.PartyOpts{Name: "XB", Seed: 7201, KeyI: 1, Pol: pol})
	r := x.P[c.Who].R
	r.BlockAt, r.Blocked, r.Release = c.K, make(chan struct{}), make(chan struct{})
	xDone := make(chan struct{})
	go func() {
		defer close(xDone)
		defer func() { recover() }()
		x.Handshake(0)
	}()
	select {
	case <-r.Blocked:
	case <-xDone:
		// the exchange needed fewer reads than K: nothing is parked
		o.Discard = true
		return o
	}
	other := make(chan string, 1)
	go func() {
		defer func() {
			if p := recover(); p != nil {
				other <- fmt.Sprint("panic: ", p)
			}
		}()
		y := sim.NewWorld(sim.PartyOpts{Name: "YA", Seed: 7300, KeyI: 2, Pol: pol}, sim.PartyOpts{Name: "YB", Seed: 7401, KeyI: 3, Pol: pol})
		if !y.Handshake(1) {
			other <- "its key exchange did not complete"
			return
		}
		y.Send(0, []byte("while the other conversation waits for its randomness"))
		got := false
		for _, cc := range y.Flush(100) {
			if cc.HasPl {
				got = true
			}
		}
		if !got {
			other <- "its text did not arrive"
			return
		}
		other <- ""
	}()
	var verdict string
	select {
	case verdict = <-other:
	case <-time.After(90 * time.Second):
		verdict = "it made no progress for 90 seconds (an ordinary session takes well under a second)"
	}
	close(r.Release)
	<-xDone
	if verdict != "" {
		return o.Fail("C20/blocked-by-other-conversation", "while conversation %s was waiting inside read %d of its own randomness source, an unrelated pair of conversations could not run a session: %s", x.P[c.Who].Name, c.K, verdict)
	}
	if !x.P[0].C.IsEncrypted() || !x.P[1].C.IsEncrypted() {
		return o.Fail("C20/stalled-conversation-broken", "after its randomness source answered at last, the stalled pair's key exchange did not complete")
	}
	o.Class(fmt.Sprintf("parked-at-read-%d", c.K))
	o.NonTrivial = true
	return o
}

func init() { reg("C20stall", runStall) }

func TestProp_C20_Stall(t *testing.T) {
	si, sn := sim.Shard()
	idx := 0
	for _, v := range []int{3, 2} {
		for who := 0; who < 2; who++ {
			for k := 0; k < 10; k++ {
				idx++
				if idx%sn == si {
					sim.Judge(t, "C20stall", &StallCase{V: v, Who: who, K: k})
				}
			}
		}
	}
	sim.MarkCompleted("C20stall", true)
}
