package props

import (
	"bytes"
	"fmt"
	"testing"

	"github.com/coyim/otr3"
	"pgregory.net/rapid"

	"verif/harness/ref"
	"verif/harness/sim"
)

// ---- C18: session lifecycle, security events and retransmission discipline ----

type c18run struct {
	s        *Sess
	o        *sim.Outcome
	pol      [2]int
	finished [2]bool
	sessions [2]int
	// transmission bookkeeping per sender
	verbatim   [2]map[string]int // token -> verbatim transmissions (any form)
	resent     [2]map[string]int
	order      [2][]string // tokens in Send order (accepted sends)
	lastTok    [2]string   // most recent accepted text
	errSince   [2]bool     // an ?OTR Error arrived while encrypted since lastTok was sent
	txOrder    [2][]string // tokens in order of first verbatim transmission
	resendSeen bool
	queued     [2][]string // texts accepted under required encryption and not yet transmitted
	lastAKEOut [2]int      // index (in the observer's record) of the last key-exchange message the party emitted, -1 none
	endedAt    [2]int      // length of the observer's record when the party last called End(), -1 never
}

// wireOf classifies the message a Receive call was given, using the observer's record of emitted units.
func (r *c18run) inputObs(c *sim.Call) *ref.ObsMsg {
	for i := len(r.s.Units) - 1; i >= 0; i-- {
		u := r.s.Units[i]
		if u.Obs != nil && len(u.Wires) > 0 && bytes.Equal(u.Wires[len(u.Wires)-1].Data, c.In) {
			return u.Obs
		}
	}
	return nil
}

func outHasType(s *Sess, c *sim.Call, typ byte) bool {
	for _, m := range c.Out {
		if raw, ok := ref.Dearmor(m); ok {
			if h, err := ref.ParseHeader(raw); err == nil && h.Type == typ {
				return true
			}
		}
	}
	// fragmented replies: consult the observer's view of what this call emitted last
	n := len(c.Out)
	for i := len(s.Seen) - 1; i >= 0 && n > 0; i, n = i-1, n-1 {
		if s.Seen[i].Raw != nil && s.Seen[i].Hdr.Type == typ && s.Seen[i].From == c.Who {
			return true
		}
	}
	return false
}

func (r *c18run) onCall(c *sim.Call) {
	if r.o.Violation != "" {
		return
	}
	s, p, who := r.s, r.s.W.P[c.Who], c.Who
	if c.Name == "Send" && c.Err == nil {
		if tok := findToken(c.In); tok != "" {
			r.lastTok[who], r.errSince[who] = tok, false
			r.order[who] = append(r.order[who], tok)
			if !c.EncBef && !r.finished[who] && r.pol[who]&sim.PolRequire != 0 && r.pol[who]&3 != 0 && len(c.Out) == 1 && ref.Classify(c.Out[0]) == ref.KQuery {
				r.queued[who] = append(r.queued[who], tok)
			}
		}
	}
	sec := c.NewSec(p)
	secs := fmt.Sprint(sec)
	in := (*ref.ObsMsg)(nil)
	if c.Name == "Receive" {
		in = r.inputObs(c)
	}
	switch {
	case !c.EncBef && c.EncAft:
		final := in != nil && in.From != who && in.Verified && (in.Reveal != nil || in.Sig != nil)
		if c.Name != "Receive" || !final {
			r.o.Fail("C18/encrypted-without-ake", "%s became encrypted in %s which did not receive a valid final key-exchange message of the peer", p.Name, c.Name)
			return
		}
		if len(sec) != 1 || sec[0] != otr3.GoneSecure {
			r.o.Fail("C18/events-gone-secure", "%s went plaintext->encrypted but the security events were %s", p.Name, secs)
			return
		}
		if r.endedAt[who] >= 0 && r.lastAKEOut[who] < r.endedAt[who] {
			// everything this party contributed to the exchange dates from before its user called End(): End() abandons
			// a key exchange in progress, so the peer's late answer must not bring a session into being
			r.o.Fail("C18/exchange-survived-end", "%s became encrypted by the peer's answer to a key exchange that its user had abandoned with End()", p.Name)
			return
		}
		r.finished[who] = false
		r.sessions[who]++
	case c.EncBef && !c.EncAft:
		disc := false
		if in != nil && in.From != who && in.Verified && in.Plain != nil {
			for _, t := range in.Plain.TLVs {
				if t.Type == ref.TLVDisconnected {
					disc = true
				}
			}
		}
		if c.Name != "End" && !(c.Name == "Receive" && disc) {
			r.o.Fail("C18/left-encrypted", "%s left the encrypted state in %s, which is neither End() nor the receipt of the peer's disconnect", p.Name, c.Name)
			return
		}
		if len(sec) != 1 || sec[0] != otr3.GoneInsecure {
			r.o.Fail("C18/events-gone-insecure", "%s went encrypted->not encrypted but the security events were %s", p.Name, secs)
			return
		}
		r.finished[who] = c.Name == "Receive"
	case c.EncBef && c.EncAft:
		// a Reveal Signature message accepted while encrypted replaces the session; the Signature message goes out
		// with it, unless the call failed after the new keys were adopted (the fresh key pair could not be drawn)
		gotReveal := c.Name == "Receive" && in != nil && in.Reveal != nil && in.Verified
		completedAsAlice := gotReveal && outHasType(s, c, ref.TypeSignature)
		if gotReveal && !completedAsAlice && c.Err != nil {
			// the call failed on the way (randomness): either before the new keys were adopted (nothing happened, no
			// event) or after (the session was replaced: StillSecure); both are consistent
			if len(sec) == 1 && sec[0] == otr3.StillSecure {
				r.sessions[who]++
			} else if len(sec) > 0 {
				r.o.Fail("C18/spurious-event", "%s raised %s in a failed %s", p.Name, secs, c.Name)
				return
			}
		} else if completedAsAlice {
			if len(sec) != 1 || sec[0] != otr3.StillSecure {
				r.o.Fail("C18/events-still-secure", "%s completed a key exchange while encrypted but the security events were %s", p.Name, secs)
				return
			}
			r.sessions[who]++
		} else if len(sec) > 0 {
			okBob := len(sec) == 1 && sec[0] == otr3.StillSecure && c.Name == "Receive" && in != nil && in.Sig != nil && in.Verified && in.From != who
			if !okBob {
				r.o.Fail("C18/spurious-event", "%s raised %s in %s without a state transition or completed refresh", p.Name, secs, c.Name)
				return
			}
			r.sessions[who]++
		}
	default:
		if len(sec) > 0 {
			r.o.Fail("C18/spurious-event", "%s raised %s in %s while staying unencrypted", p.Name, secs, c.Name)
			return
		}
		if c.Name == "End" {
			r.finished[who] = false
		}
	}
	if c.Name == "Receive" && bytes.HasPrefix(c.In, []byte("?OTR Error")) && c.EncBef {
		r.errSince[who] = true
	}
	// transmissions
	n := len(c.Out)
	for i := len(s.Seen) - n; i < len(s.Seen) && i >= 0; i++ {
		if m := s.Seen[i]; m.Raw != nil && m.From == who && m.Hdr.Type != ref.TypeData {
			r.lastAKEOut[who] = i
		}
	}
	if c.Name == "End" {
		r.endedAt[who] = len(s.Seen)
	}
	for i := len(s.Seen) - n; i < len(s.Seen) && i >= 0; i++ {
		m := s.Seen[i]
		var text []byte
		switch {
		case m.Data != nil && m.Verified && m.Plain != nil:
			text = m.Plain.Text
		case m.Kind == ref.KPlain || m.Kind == ref.KTagged:
			text = m.Wire
		default:
			continue
		}
		if len(text) == 0 {
			continue
		}
		isResent := bytes.HasPrefix(text, []byte("[resent] "))
		tok := findToken(text)
		if isResent {
			r.resendSeen = true
			if tok == "" {
				r.o.Fail("C18/resent-non-text", "%s transmitted %q: a resend of something that is not a user text", p.Name, text)
				return
			}
			r.resent[who][tok]++
			if r.resent[who][tok] > 1 {
				r.o.Fail("C18/resent-twice", "%s resent text %s more than once", p.Name, tok)
				return
			}
			if tok != r.lastTok[who] {
				r.o.Fail("C18/resent-old", "%s resent %s although its most recent message is %s", p.Name, tok, r.lastTok[who])
				return
			}
			if !r.errSince[who] {
				r.o.Fail("C18/resent-unprovoked", "%s resent %s although the peer reported no unreadable message while encrypted", p.Name, tok)
				return
			}
			continue
		}
		if tok == "" {
			continue
		}
		r.verbatim[who][tok]++
		if r.verbatim[who][tok] > 1 {
			r.o.Fail("C18/sent-twice", "%s transmitted text %s twice without marking it as resent", p.Name, tok)
			return
		}
		r.txOrder[who] = append(r.txOrder[who], tok)
	}
	if !c.EncBef && c.EncAft && r.s.Faults == 0 {
		// the session starts: what was waiting for it goes out now, all of it
		now := map[string]bool{}
		for i := len(s.Seen) - n; i < len(s.Seen) && i >= 0; i++ {
			if m := s.Seen[i]; m.Data != nil && m.Verified && m.Plain != nil {
				now[findToken(m.Plain.Text)] = true
			}
		}
		for _, tok := range r.queued[who] {
			if !now[tok] && r.verbatim[who][tok] == 0 {
				r.o.Fail("C18/queued-not-sent", "%s accepted text %s while waiting for encryption; the session has started and the text was not transmitted", p.Name, tok)
				return
			}
		}
		if len(r.queued[who]) > 0 {
			r.o.Class("queued-texts-released")
		}
		r.queued[who] = nil
	}
	if c.Name == "End" {
		r.queued[who] = nil
		// End() closes the books: nothing said before it is "the most recent message" of whatever comes next,
		// and a complaint of the peer about the old session is no licence to resend into a new one
		r.lastTok[who], r.errSince[who] = "", false
	}
}

func runC18(sc *LifeScript) *sim.Outcome {
	o := &sim.Outcome{}
	s := newLifeSess(sc, o)
	r := &c18run{s: s, o: o, pol: [2]int{sc.PolA, sc.PolB}, lastAKEOut: [2]int{-1, -1}, endedAt: [2]int{-1, -1}}
	for i := 0; i < 2; i++ {
		r.verbatim[i], r.resent[i] = map[string]int{}, map[string]int{}
	}
	w := s.W
	prev := w.OnCall
	w.OnCall = func(c *sim.Call) { prev(c); r.onCall(c) }
	for _, op := range sc.Ops {
		if o.Violation != "" {
			return o
		}
		who := op.W & 1
		switch op.K {
		case "send":
			text := s.Text(who, op.L%300, op.F%3)
			tok := findToken(text)
			enc := w.P[who].C.IsEncrypted()
			otrOn := r.pol[who]&3 != 0
			fin := r.finished[who]
			_ = tok
			st := s.Send(who, text)
			if o.Violation != "" {
				return o
			}
			switch {
			case !otrOn:
			case fin && !enc:
				if st.Err == nil || len(st.Call.Out) > 0 {
					return o.Fail("C18/finished-send", "Send after the peer's disconnect returned err=%v with %d message(s); it must refuse until End()", st.Err, len(st.Call.Out))
				}
				o.Class("send-while-finished")
			case !enc && r.pol[who]&sim.PolRequire == 0:
				// plaintext policy: the text goes out in clear, once
				if st.Err != nil || len(st.Call.Out) != 1 || !bytes.HasPrefix(st.Call.Out[0], text) {
					return o.Fail("C18/plaintext-send", "Send in plaintext state without required encryption did not emit the text (err=%v, %d messages)", st.Err, len(st.Call.Out))
				}
			}
		case "restart":
			// the peer restarts: its conversation object is replaced by a fresh one
			np := sim.NewParty(sim.PartyOpts{Name: w.P[who].Name, Seed: sc.Cfg.SeedA*7 + uint64(len(s.Seen)*2+who) + 1000, Pol: r.pol[who], KeyI: w.P[who].KeyI})
			w.P[who] = np
			r.queued[who] = nil
			r.lastAKEOut[who], r.endedAt[who] = -1, -1
			s.nDraw[who] = 0
			r.finished[who] = false
			w.Q[who] = nil
			o.Class("peer-restart")
		default:
			s.Exec(op)
		}
	}
	s.Exec(SOp{K: "flush"})
	if o.Violation != "" {
		return o
	}
	// queued texts go out in sending order
	for who := 0; who < 2; who++ {
		pos := map[string]int{}
		for i, t := range r.order[who] {
			pos[t] = i
		}
		last := -1
		for _, t := range r.txOrder[who] {
			if p, ok := pos[t]; ok {
				if p < last {
					return o.Fail("C18/out-of-order", "%s transmitted text %s after a text that was sent later", w.P[who].Name, t)
				}
				last = p
			}
		}
	}
	if r.sessions[0]+r.sessions[1] >= 3 {
		o.Class("multi-session")
	}
	if r.resendSeen {
		o.Class("resend")
	}
	o.NonTrivial = r.sessions[0] >= 2 || r.sessions[1] >= 2 || r.resendSeen
	return o
}

func init() { reg("C18life", runC18) }

func TestProp_C18_Lifecycle(t *testing.T) {
	defer sim.MarkCompleted("C18life", false)
	kinds := append([]string{"restart", "errmsg", "errmsg", "sess", "sess"}, lifeKinds...)
	rapid.Check(t, func(rt *rapid.T) {
		sc := &LifeScript{Cfg: genSessCfg(rt), PolA: genPol(rt, "polA"), PolB: genPol(rt, "polB")}
		sc.Cfg.V = 3
		n := rapid.IntRange(2, 45).Draw(rt, "nops")
		for i := 0; i < n; i++ {
			sc.Ops = append(sc.Ops, genSOp(rt, kinds, 300))
		}
		sim.Judge(rt, "C18life", sc)
	})
}
