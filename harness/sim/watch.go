package sim

import (
	"encoding/json"
	"fmt"
	"os"
	"runtime"
	"time"
)

// Crumb records the case about to be executed, so that a worker that dies
// (fatal out-of-memory, stack overflow) leaves its input behind.
func Crumb(test string, script interface{}) {
	path := os.Getenv("VERIF_CRUMB")
	if path == "" {
		return
	}
	raw, _ := json.Marshal(script)
	b, _ := json.Marshal(map[string]interface{}{"test": test, "sig": "process-death", "t": time.Now().Unix(), "script": json.RawMessage(raw),
		"violation": "the worker process died while executing this case (fatal runtime error: out of memory or stack overflow)"})
	_ = os.WriteFile(path, b, 0o644)
}

// ClearCrumb removes the breadcrumb after a clean finish.
func ClearCrumb() {
	if path := os.Getenv("VERIF_CRUMB"); path != "" {
		_ = os.Remove(path)
	}
}

// Measured is the result of a guarded, measured call.
type Measured struct {
	Alloc   uint64
	Elapsed time.Duration
	Hung    bool
	Panic   string
	PanicAt string
}

// Measure runs f under a watchdog and measures the bytes allocated during the call.
// A hang cannot be interrupted: the goroutine is abandoned and the caller is expected
// to report and stop the process.
func Measure(limit time.Duration, f func()) Measured {
	var m Measured
	var before, after runtime.MemStats
	done := make(chan struct{})
	runtime.ReadMemStats(&before)
	t0 := time.Now()
	go func() {
		defer close(done)
		defer func() {
			if r := recover(); r != nil {
				st := string(stackOf())
				m.Panic = fmt.Sprintf("%v\n%s", r, trimStack(st))
				m.PanicAt = PanicSig(st)
			}
		}()
		f()
	}()
	select {
	case <-done:
	case <-time.After(limit):
		m.Hung = true
	}
	m.Elapsed = time.Since(t0)
	runtime.ReadMemStats(&after)
	m.Alloc = after.TotalAlloc - before.TotalAlloc
	return m
}

func stackOf() []byte {
	buf := make([]byte, 1<<16)
	return buf[:runtime.Stack(buf, false)]
}

// Judge a measurement against the C13 bounds; input length n.
func (m Measured) Verdict(o *Outcome, what string, n int) bool {
	switch {
	case m.Panic != "":
		o.Fail(m.PanicAt, "%s panicked: %s", what, m.Panic)
	case m.Hung:
		o.Fail("C13/hang@"+what, "%s did not return within the watchdog limit on an input of %d bytes (allocated %d bytes meanwhile)", what, n, m.Alloc)
	case m.Alloc > 16<<20+4096*uint64(n):
		o.Fail("C13/alloc@"+what, "%s allocated %d bytes for an input of %d bytes", what, m.Alloc, n)
	default:
		return true
	}
	return false
}

// FailHard records a violation that makes continuing pointless (a goroutine is stuck) and ends the process.
func FailHard(test string, o *Outcome, script interface{}) {
	raw, _ := json.Marshal(script)
	path := SaveReplay(test, o, raw)
	statMu.Lock()
	s := statFor(test)
	s.Evaluations++
	s.Violations = []ViolationRec{{Sig: o.Sig, Msg: firstLines(o.Violation, 6), Replay: path, Test: test}}
	statMu.Unlock()
	Flush()
	ClearCrumb()
	fmt.Printf("VIOLATION %s sig=%s: %s\n", test, o.Sig, firstLines(o.Violation, 3))
	os.Exit(1)
}
