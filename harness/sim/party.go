package sim

import (
	"bufio"
	"encoding/hex"
	"fmt"
	"os"
	"path/filepath"
	"runtime"
	"strings"
	"sync"

	"github.com/coyim/otr3"
)

// Policy bits used in scripts (independent of otr3's internal encoding).
const (
	PolV2 = 1 << iota
	PolV3
	PolRequire
	PolSendWS
	PolWSStart
	PolErrStart
)

// MsgEv is a recorded message event.
type MsgEv struct {
	Ev  otr3.MessageEvent
	Msg string
	Err string
}

// SMPEv is a recorded SMP event.
type SMPEv struct {
	Ev       otr3.SMPEvent
	Progress int
	Question string
}

// SymKey is a recorded received-symmetric-key callback.
type SymKey struct {
	Usage uint32
	Data  []byte
	Key   []byte
}

// Party wraps one real conversation with recorders for everything observable.
type Party struct {
	Name string
	C    *otr3.Conversation
	R    *Rand
	Key  *otr3.DSAPrivateKey
	KeyI int
	Pol  int

	SMP  []SMPEv
	Sec  []otr3.SecurityEvent
	Msg  []MsgEv
	Errs []otr3.ErrorCode
	Sym  []SymKey
}

// HandleSMPEvent implements otr3.SMPEventHandler.
func (p *Party) HandleSMPEvent(e otr3.SMPEvent, progress int, q string) {
	p.SMP = append(p.SMP, SMPEv{e, progress, q})
}

// HandleSecurityEvent implements otr3.SecurityEventHandler.
func (p *Party) HandleSecurityEvent(e otr3.SecurityEvent) { p.Sec = append(p.Sec, e) }

// HandleMessageEvent implements otr3.MessageEventHandler.
func (p *Party) HandleMessageEvent(e otr3.MessageEvent, m []byte, err error, trace ...interface{}) {
	ev := MsgEv{Ev: e, Msg: string(m)}
	if err != nil {
		ev.Err = err.Error()
	}
	p.Msg = append(p.Msg, ev)
}

// HandleErrorMessage implements otr3.ErrorMessageHandler.
func (p *Party) HandleErrorMessage(e otr3.ErrorCode) []byte {
	p.Errs = append(p.Errs, e)
	// short (an application may well answer with a word) and different from party to party
	return []byte(fmt.Sprintf("e%d-%03d", int(e), (p.R.Seed/1000+p.R.Seed)%1000))
}

// ReceivedSymmetricKey implements otr3.ReceivedKeyHandler.
func (p *Party) ReceivedSymmetricKey(usage uint32, data []byte, key []byte) {
	p.Sym = append(p.Sym, SymKey{usage, append([]byte{}, data...), append([]byte{}, key...)})
}

// Counts is a snapshot of recorder lengths, used to compute per-call deltas.
type Counts struct{ SMP, Sec, Msg, Errs, Sym int }

// Snap returns the current recorder lengths.
func (p *Party) Snap() Counts {
	return Counts{len(p.SMP), len(p.Sec), len(p.Msg), len(p.Errs), len(p.Sym)}
}

// PartyOpts configures NewParty.
type PartyOpts struct {
	Name       string
	Seed       uint64
	Pol        int
	KeyI       int  // index in the key pool; <0: no long-term key
	Frag       int  // fragment size, 0 = off
	NoErrH     bool // leave the error-message handler unset
	NoHandlers bool
	ShortKeys  int                 // this many of the party's first D-H exponents are ones whose public value has a zero top byte
	ShortFrom  int                 // which half of ShortExps this party uses (0 or 1; the parties of one world use different halves)
	KeyObj     *otr3.DSAPrivateKey // use this very key object (an account's key is one object shared by all its conversations)
	SysRand    bool                // leave Conversation.Rand unset: the library then uses the operating system's generator
}

// NewParty builds a conversation with tracked randomness and recorders.
func NewParty(o PartyOpts) *Party {
	p := &Party{Name: o.Name, R: NewRand(o.Seed), Pol: o.Pol, KeyI: o.KeyI}
	for i := 0; i < o.ShortKeys; i++ {
		p.R.ArmShort(o.ShortFrom)
	}
	c := &otr3.Conversation{}
	if !o.SysRand {
		c.Rand = p.R
	}
	ApplyPolicies(c, o.Pol)
	if o.KeyObj != nil {
		p.Key = o.KeyObj
		c.SetOurKeys([]otr3.PrivateKey{p.Key})
	} else if o.KeyI >= 0 {
		p.Key = PoolKey(o.KeyI)
		c.SetOurKeys([]otr3.PrivateKey{p.Key})
	}
	if o.Frag > 0 {
		c.SetFragmentSize(uint16(o.Frag))
	}
	if !o.NoHandlers {
		c.SetSMPEventHandler(p)
		c.SetSecurityEventHandler(p)
		c.SetMessageEventHandler(p)
		c.SetReceivedKeyHandler(p)
		if !o.NoErrH {
			c.SetErrorMessageHandler(p)
		}
	}
	p.C = c
	return p
}

// ApplyPolicies sets the policy bits on a conversation.
func ApplyPolicies(c *otr3.Conversation, pol int) {
	if pol&PolV2 != 0 {
		c.Policies.AllowV2()
	}
	if pol&PolV3 != 0 {
		c.Policies.AllowV3()
	}
	if pol&PolRequire != 0 {
		c.Policies.RequireEncryption()
	}
	if pol&PolSendWS != 0 {
		c.Policies.SendWhitespaceTag()
	}
	if pol&PolWSStart != 0 {
		c.Policies.WhitespaceStartAKE()
	}
	if pol&PolErrStart != 0 {
		c.Policies.ErrorStartAKE()
	}
}

var (
	poolOnce sync.Once
	poolRaw  [][]byte
)

// PoolDir locates harness/keys relative to this source file.
func PoolDir() string {
	_, file, _, _ := runtime.Caller(0)
	return filepath.Join(filepath.Dir(filepath.Dir(file)), "keys")
}

func loadPool() {
	dir := os.Getenv("VERIF_KEYS")
	if dir == "" {
		dir = PoolDir()
	}
	f, err := os.Open(filepath.Join(dir, "pool.txt"))
	if err != nil {
		panic("key pool: " + err.Error())
	}
	defer f.Close()
	sc := bufio.NewScanner(f)
	sc.Buffer(make([]byte, 1<<20), 1<<20)
	for sc.Scan() {
		l := strings.TrimSpace(sc.Text())
		if l == "" {
			continue
		}
		b, err := hex.DecodeString(l)
		if err != nil {
			panic(err)
		}
		poolRaw = append(poolRaw, b)
	}
}

// PoolSize is the number of committed test keys.
func PoolSize() int { poolOnce.Do(loadPool); return len(poolRaw) }

// PoolKeyBytes returns the serialised private key i (type, p, q, g, y, x as MPIs).
func PoolKeyBytes(i int) []byte {
	poolOnce.Do(loadPool)
	return poolRaw[((i%len(poolRaw))+len(poolRaw))%len(poolRaw)]
}

// PoolKey parses a fresh private key object from the pool.
func PoolKey(i int) *otr3.DSAPrivateKey {
	k := &otr3.DSAPrivateKey{}
	if _, ok := k.Parse(PoolKeyBytes(i)); !ok {
		panic("cannot parse pool key")
	}
	return k
}
