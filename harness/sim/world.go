package sim

import (
	"fmt"
	"time"

	"github.com/coyim/otr3"
)

// Wire is one message in flight or recorded.
type Wire struct {
	Data     []byte
	From     int // 0 = A, 1 = B, 2 = attacker
	Seq      int
	Call     string // API call that produced it
	Tampered bool
	Replayed bool
}

// Call is the record of one API call on a party.
type Call struct {
	Who    int
	Name   string
	In     []byte
	Plain  []byte
	HasPl  bool // Receive returned a non-nil plaintext
	Out    [][]byte
	Err    error
	Before Counts
	After  Counts
	EncBef bool
	EncAft bool
}

// NewSMP etc. return the events raised during the call.
func (c *Call) NewSMP(p *Party) []SMPEv              { return p.SMP[c.Before.SMP:c.After.SMP] }
func (c *Call) NewSec(p *Party) []otr3.SecurityEvent { return p.Sec[c.Before.Sec:c.After.Sec] }
func (c *Call) NewMsg(p *Party) []MsgEv              { return p.Msg[c.Before.Msg:c.After.Msg] }
func (c *Call) NewSym(p *Party) []SymKey             { return p.Sym[c.Before.Sym:c.After.Sym] }

// HasMsgEv reports whether the call raised the given message event.
func (c *Call) HasMsgEv(p *Party, e otr3.MessageEvent) bool {
	for _, m := range c.NewMsg(p) {
		if m.Ev == e {
			return true
		}
	}
	return false
}

// World is two parties joined by two queues under adversarial control.
type World struct {
	P     [2]*Party
	Q     [2][]*Wire // Q[0]: A→B, Q[1]: B→A
	Log   []*Wire    // every message ever emitted by a party, in order
	Calls []*Call
	seq   int
	// KeepRaw makes the world keep the very slices the library returned (see Changed).
	KeepRaw bool
	held    []held
	// OnCall, when set, sees every API call after it returned.
	OnCall func(*Call)
}

// NewWorld builds a world from two party options.
func NewWorld(a, b PartyOpts) *World {
	if a.Name == "" {
		a.Name = "A"
	}
	if b.Name == "" {
		b.Name = "B"
	}
	return &World{P: [2]*Party{NewParty(a), NewParty(b)}}
}

// held is an output of the library kept exactly as it was handed out, next to a copy taken at that moment.
type held struct {
	raw, cp []byte
	what    string
}

// take copies the messages a call returned and, when KeepRaw is set, keeps hold of the originals too.
func (w *World) take(v []otr3.ValidMessage, what string) [][]byte {
	out := toBytes(v)
	if w.KeepRaw {
		for i, m := range v {
			if len(m) > 0 {
				w.held = append(w.held, held{raw: m, cp: out[i], what: what})
			}
		}
	}
	return out
}

// Changed reports the first output that no longer reads as it did when the library returned it: memory the
// caller was given and that somebody wrote to afterwards.
func (w *World) Changed() string {
	for _, h := range w.held {
		if string(h.raw) != string(h.cp) {
			return fmt.Sprintf("a message returned by %s read %.40q when it was returned and reads %.40q now", h.what, h.cp, h.raw)
		}
	}
	return ""
}

func toBytes(v []otr3.ValidMessage) [][]byte {
	out := make([][]byte, len(v))
	for i, m := range v {
		out[i] = append([]byte{}, m...)
	}
	return out
}

func (w *World) begin(who int, name string, in []byte) *Call {
	p := w.P[who]
	return &Call{Who: who, Name: name, In: in, Before: p.Snap(), EncBef: p.C.IsEncrypted()}
}

func (w *World) finish(c *Call, enqueue bool) *Call {
	p := w.P[c.Who]
	c.After = p.Snap()
	c.EncAft = p.C.IsEncrypted()
	for _, m := range c.Out {
		w.seq++
		wr := &Wire{Data: m, From: c.Who, Seq: w.seq, Call: c.Name}
		w.Log = append(w.Log, wr)
		if enqueue {
			w.Q[c.Who] = append(w.Q[c.Who], wr)
		}
	}
	w.Calls = append(w.Calls, c)
	if w.OnCall != nil {
		w.OnCall(c)
	}
	return c
}

// Send passes text to party who's Send and queues the output.
func (w *World) Send(who int, text []byte) *Call {
	c := w.begin(who, "Send", text)
	out, err := w.P[who].C.Send(otr3.ValidMessage(append([]byte{}, text...)))
	c.Out, c.Err = w.take(out, w.P[c.Who].Name+"."+c.Name), err
	return w.finish(c, true)
}

// Receive hands raw bytes to party who's Receive; replies are queued.
func (w *World) Receive(who int, data []byte) *Call {
	c := w.begin(who, "Receive", data)
	plain, out, err := w.P[who].C.Receive(otr3.ValidMessage(append([]byte{}, data...)))
	c.Plain, c.HasPl = append([]byte{}, plain...), plain != nil
	if w.KeepRaw && len(plain) > 0 {
		w.held = append(w.held, held{raw: plain, cp: c.Plain, what: w.P[who].Name + ".Receive (the plaintext)"})
	}
	c.Out, c.Err = w.take(out, w.P[c.Who].Name+"."+c.Name), err
	return w.finish(c, true)
}

// Deliver removes message idx of direction dir and gives it to the receiver.
func (w *World) Deliver(dir, idx int) *Call {
	if len(w.Q[dir]) == 0 {
		return nil
	}
	idx = ((idx % len(w.Q[dir])) + len(w.Q[dir])) % len(w.Q[dir])
	m := w.Q[dir][idx]
	w.Q[dir] = append(w.Q[dir][:idx:idx], w.Q[dir][idx+1:]...)
	return w.Receive(1-dir, m.Data)
}

// Drop removes a message without delivering it.
func (w *World) Drop(dir, idx int) *Wire {
	if len(w.Q[dir]) == 0 {
		return nil
	}
	idx = ((idx % len(w.Q[dir])) + len(w.Q[dir])) % len(w.Q[dir])
	m := w.Q[dir][idx]
	w.Q[dir] = append(w.Q[dir][:idx:idx], w.Q[dir][idx+1:]...)
	return m
}

// Query makes who emit its query message.
func (w *World) Query(who int) *Call {
	c := w.begin(who, "QueryMessage", nil)
	c.Out = [][]byte{append([]byte{}, w.P[who].C.QueryMessage()...)}
	return w.finish(c, true)
}

// End calls End.
func (w *World) End(who int) *Call {
	c := w.begin(who, "End", nil)
	out, err := w.P[who].C.End()
	c.Out, c.Err = w.take(out, w.P[c.Who].Name+"."+c.Name), err
	return w.finish(c, true)
}

// Lend returns a private copy of b to be handed to the library for the duration of one call, and a function that
// overwrites that copy afterwards: a buffer passed to an API call belongs to the caller again once the call has
// returned (an application wipes a pass-phrase field or reuses its input buffer), so nothing the library does later
// may depend on its contents.
func Lend(b []byte) ([]byte, func()) {
	buf := append(make([]byte, 0, len(b)+8), b...)
	return buf, func() {
		full := buf[:cap(buf)]
		for i := range full {
			full[i] = 0xA5 ^ byte(i)
		}
	}
}

// SMPStart calls StartAuthenticate.
func (w *World) SMPStart(who int, question string, secret []byte) *Call {
	c := w.begin(who, "StartAuthenticate", secret)
	buf, reuse := Lend(secret)
	out, err := w.P[who].C.StartAuthenticate(question, buf)
	reuse()
	c.Out, c.Err = w.take(out, w.P[c.Who].Name+"."+c.Name), err
	return w.finish(c, true)
}

// SMPAnswer calls ProvideAuthenticationSecret.
func (w *World) SMPAnswer(who int, secret []byte) *Call {
	c := w.begin(who, "ProvideAuthenticationSecret", secret)
	buf, reuse := Lend(secret)
	out, err := w.P[who].C.ProvideAuthenticationSecret(buf)
	reuse()
	c.Out, c.Err = w.take(out, w.P[c.Who].Name+"."+c.Name), err
	return w.finish(c, true)
}

// SMPAbort calls AbortAuthentication.
func (w *World) SMPAbort(who int) *Call {
	c := w.begin(who, "AbortAuthentication", nil)
	out, err := w.P[who].C.AbortAuthentication()
	c.Out, c.Err = w.take(out, w.P[c.Who].Name+"."+c.Name), err
	return w.finish(c, true)
}

// ExtraKey calls UseExtraSymmetricKey; the key is returned in Plain.
func (w *World) ExtraKey(who int, usage uint32, data []byte) *Call {
	c := w.begin(who, "UseExtraSymmetricKey", data)
	key, out, err := w.P[who].C.UseExtraSymmetricKey(usage, data)
	c.Plain = append([]byte{}, key...)
	c.Out, c.Err = w.take(out, w.P[c.Who].Name+"."+c.Name), err
	return w.finish(c, true)
}

// AgeClock lets d of wall time pass for party who.
func (w *World) AgeClock(who int, d time.Duration) { Age(w.P[who].C, d) }

// Pending reports the total number of queued messages.
func (w *World) Pending() int { return len(w.Q[0]) + len(w.Q[1]) }

// Flush delivers FIFO, alternating directions, until both queues are empty or
// max deliveries were made. It returns the calls made.
func (w *World) Flush(max int) []*Call {
	var calls []*Call
	for n := 0; n < max && w.Pending() > 0; n++ {
		dir := n % 2
		if len(w.Q[dir]) == 0 {
			dir = 1 - dir
		}
		calls = append(calls, w.Deliver(dir, 0))
	}
	return calls
}

// Handshake runs a query-initiated AKE started by `starter` to quiescence.
func (w *World) Handshake(starter int) bool {
	w.Query(starter)
	w.Flush(200000)
	return w.P[0].C.IsEncrypted() && w.P[1].C.IsEncrypted()
}
