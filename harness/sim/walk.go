package sim

import (
	"bytes"
	"crypto/sha256"
	"encoding/binary"
	"fmt"
	"reflect"
	"strings"
	"time"
	"unsafe"
)

// Region is one contiguous piece of memory reachable from the walked root.
type Region struct {
	Path string
	Mem  []byte // alias of the live memory, to capacity
	Len  int    // bytes within len (rest is spare capacity)
}

// Graph is the result of a walk.
type Graph struct {
	Regions []Region
	Times   []*time.Time
	Size    int // bytes retained: pointed-to structs + backing arrays to capacity + strings
	digest  [32]byte
	hasher  interface {
		Write([]byte) (int, error)
		Sum([]byte) []byte
	}
}

var timeType = reflect.TypeOf(time.Time{})

type visitKey struct {
	p uintptr
	t reflect.Type
}

type walker struct {
	g    *Graph
	seen map[visitKey]bool
	skip func(reflect.Type) bool
}

func defaultSkip(t reflect.Type) bool {
	pp := t.PkgPath()
	if strings.HasPrefix(pp, "verif/harness") {
		return true
	}
	// long-term keys are not session state
	if pp == "crypto/dsa" {
		return true
	}
	if pp == "github.com/coyim/otr3" && (t.Name() == "DSAPrivateKey" || t.Name() == "DSAPublicKey") {
		return true
	}
	return false
}

// Walk traverses everything reachable from root (a pointer), including
// unexported fields and slice capacity, without using any otr3 identifier.
func Walk(root interface{}) *Graph {
	g := &Graph{}
	h := sha256.New()
	g.hasher = h
	w := &walker{g: g, seen: map[visitKey]bool{}, skip: defaultSkip}
	v := reflect.ValueOf(root)
	if v.Kind() != reflect.Ptr {
		panic("Walk needs a pointer")
	}
	w.visit(v.Elem(), "c")
	g.Size += int(v.Elem().Type().Size())
	copy(g.digest[:], h.Sum(nil))
	return g
}

// Digest is a structural digest of the reachable state with time.Time masked.
func (g *Graph) Digest() [32]byte { return g.digest }

func (w *walker) note(format string, a ...interface{}) {
	fmt.Fprintf(w.g.hasher.(interface {
		Write([]byte) (int, error)
	}), format, a...)
}

// rw returns v with the read-only flag cleared (v must be addressable).
func rw(v reflect.Value) reflect.Value {
	if v.CanAddr() {
		return reflect.NewAt(v.Type(), unsafe.Pointer(v.UnsafeAddr())).Elem()
	}
	return v
}

func (w *walker) visit(v reflect.Value, path string) {
	if !v.IsValid() {
		return
	}
	t := v.Type()
	if w.skip(t) {
		return
	}
	v = rw(v)
	switch v.Kind() {
	case reflect.Bool:
		w.note("%s=%v;", path, v.Bool())
	case reflect.Int, reflect.Int8, reflect.Int16, reflect.Int32, reflect.Int64:
		w.note("%s=%d;", path, v.Int())
	case reflect.Uint, reflect.Uint8, reflect.Uint16, reflect.Uint32, reflect.Uint64, reflect.Uintptr:
		w.note("%s=%d;", path, v.Uint())
	case reflect.Float32, reflect.Float64, reflect.Complex64, reflect.Complex128:
	case reflect.String:
		s := v.String()
		w.note("%s=%q;", path, s)
		if len(s) > 0 {
			mem := unsafe.Slice(unsafe.StringData(s), len(s))
			w.g.Regions = append(w.g.Regions, Region{path, mem, len(s)})
			w.g.Size += len(s)
		}
	case reflect.Ptr:
		if v.IsNil() {
			w.note("%s=nil;", path)
			return
		}
		k := visitKey{v.Pointer(), t}
		if w.seen[k] {
			return
		}
		w.seen[k] = true
		if w.skip(t.Elem()) {
			return
		}
		w.g.Size += int(t.Elem().Size())
		w.visit(v.Elem(), path+"*")
	case reflect.Interface:
		if v.IsNil() {
			w.note("%s=nil;", path)
			return
		}
		e := v.Elem()
		w.note("%s:%s;", path, e.Type().String())
		if w.skip(e.Type()) {
			return
		}
		switch e.Kind() {
		case reflect.Ptr, reflect.Map, reflect.Slice, reflect.Chan, reflect.Func, reflect.UnsafePointer:
			w.visit(e, path+"{}")
		default:
			// value stored in the interface: copy it into addressable memory;
			// the copy shares every pointer and backing array with the original
			cp := reflect.New(e.Type()).Elem()
			cp.Set(e)
			w.g.Size += int(e.Type().Size())
			w.visit(cp, path+"{}")
		}
	case reflect.Struct:
		if t == timeType {
			if v.CanAddr() {
				tp := (*time.Time)(unsafe.Pointer(v.UnsafeAddr()))
				w.g.Times = append(w.g.Times, tp)
				w.note("%s=time(zero=%v);", path, tp.IsZero())
			}
			return
		}
		for i := 0; i < v.NumField(); i++ {
			w.visit(v.Field(i), path+"."+t.Field(i).Name)
		}
	case reflect.Array:
		et := t.Elem()
		if isPlain(et) {
			if v.CanAddr() && v.Len() > 0 {
				n := v.Len() * int(et.Size())
				mem := unsafe.Slice((*byte)(unsafe.Pointer(v.UnsafeAddr())), n)
				w.g.Regions = append(w.g.Regions, Region{path, mem, n})
				w.note("%s=%x;", path, mem)
			}
			return
		}
		for i := 0; i < v.Len(); i++ {
			w.visit(v.Index(i), fmt.Sprintf("%s[%d]", path, i))
		}
	case reflect.Slice:
		if v.IsNil() {
			w.note("%s=nil;", path)
			return
		}
		et := t.Elem()
		n, c := v.Len(), v.Cap()
		w.note("%s.len=%d;", path, n)
		if c == 0 {
			return
		}
		k := visitKey{v.Pointer(), t}
		dup := w.seen[k]
		w.seen[k] = true
		if !dup {
			w.g.Size += c * int(et.Size())
		}
		if isPlain(et) {
			mem := unsafe.Slice((*byte)(unsafe.Pointer(v.Pointer())), c*int(et.Size()))
			w.note("%s=%x;", path, mem[:n*int(et.Size())])
			if !dup {
				w.g.Regions = append(w.g.Regions, Region{path, mem, n * int(et.Size())})
			}
			return
		}
		if dup {
			return
		}
		full := v.Slice3(0, c, c)
		for i := 0; i < c; i++ {
			w.visit(full.Index(i), fmt.Sprintf("%s[%d]", path, i))
		}
	case reflect.Map:
		if v.IsNil() {
			return
		}
		it := v.MapRange()
		i := 0
		for it.Next() {
			kc := reflect.New(t.Key()).Elem()
			kc.Set(it.Key())
			vc := reflect.New(t.Elem()).Elem()
			vc.Set(it.Value())
			w.visit(kc, fmt.Sprintf("%s<k%d>", path, i))
			w.visit(vc, fmt.Sprintf("%s<v%d>", path, i))
			w.g.Size += int(t.Key().Size() + t.Elem().Size())
			i++
		}
	case reflect.Chan, reflect.Func, reflect.UnsafePointer:
	}
}

func isPlain(t reflect.Type) bool {
	switch t.Kind() {
	case reflect.Bool, reflect.Int, reflect.Int8, reflect.Int16, reflect.Int32, reflect.Int64,
		reflect.Uint, reflect.Uint8, reflect.Uint16, reflect.Uint32, reflect.Uint64, reflect.Uintptr,
		reflect.Float32, reflect.Float64:
		return true
	}
	return false
}

// Age makes every non-zero time.Time reachable from root older by d, which is
// observationally the same as the wall clock advancing by d.
func Age(root interface{}, d time.Duration) int {
	g := Walk(root)
	n := 0
	for _, tp := range g.Times {
		if !tp.IsZero() {
			*tp = tp.Add(-d)
			n++
		}
	}
	return n
}

// secretForms returns the memory images under which a big-endian secret may be
// stored: as bytes, and as little-endian big.Int limbs (leading zeros trimmed).
func secretForms(secret []byte) [][]byte {
	s := bytes.TrimLeft(secret, "\x00")
	if len(s) < 8 {
		return nil
	}
	rev := make([]byte, len(s))
	for i := range s {
		rev[len(s)-1-i] = s[i]
	}
	forms := [][]byte{s, rev}
	if len(s)%8 != 0 {
		// limbs: most significant word is partial; match on the full low words only
		forms[1] = rev[:len(s)/8*8]
	}
	return forms
}

// Find reports the paths of regions (to capacity) containing the secret.
func (g *Graph) Find(secret []byte) []string {
	var out []string
	forms := secretForms(secret)
	for _, r := range g.Regions {
		for _, f := range forms {
			if len(f) >= 8 && bytes.Contains(r.Mem, f) {
				within := bytes.Contains(r.Mem[:r.Len], f)
				if within {
					out = append(out, r.Path)
				} else {
					out = append(out, r.Path+"(cap)")
				}
				break
			}
		}
	}
	return out
}

// FindText reports regions containing the given text bytes verbatim.
func (g *Graph) FindText(text []byte) []string {
	var out []string
	if len(text) == 0 {
		return nil
	}
	for _, r := range g.Regions {
		if bytes.Contains(r.Mem, text) {
			out = append(out, r.Path)
		}
	}
	return out
}

// U64 is a helper for hashing.
func U64(b []byte) uint64 { return binary.BigEndian.Uint64(b) }

// FindRegions returns the regions (to capacity) whose memory contains the secret.
func (g *Graph) FindRegions(secret []byte) []Region {
	var out []Region
	forms := secretForms(secret)
	for _, r := range g.Regions {
		for _, f := range forms {
			if len(f) >= 8 && bytes.Contains(r.Mem, f) {
				out = append(out, r)
				break
			}
		}
	}
	return out
}

// StillHolds reports whether mem still contains the secret in one of its storage forms.
func StillHolds(mem, secret []byte) bool {
	for _, f := range secretForms(secret) {
		if len(f) >= 8 && bytes.Contains(mem, f) {
			return true
		}
	}
	return false
}
