package sim

import (
	"crypto/sha256"
	"encoding/hex"
	"encoding/json"
	"fmt"
	"os"
	"path/filepath"
	"regexp"
	"runtime/debug"
	"sort"
	"strings"
	"sync"
)

// Outcome is what running one generated case produced.
type Outcome struct {
	Violation  string   // empty: the property held on this case
	Sig        string   // signature of what failed (for known-finding matching)
	NonTrivial bool     // by the property's stated rule
	Classes    []string // generator/oracle class labels hit by this case
	Discard    bool     // case did not meet the property's precondition (counted)
	Note       string
}

// Fail builds a violating outcome.
func (o *Outcome) Fail(sig, format string, a ...interface{}) *Outcome {
	if o.Violation == "" {
		o.Sig = sig
		o.Violation = fmt.Sprintf(format, a...)
	}
	return o
}

// Class adds a class label.
func (o *Outcome) Class(c string) { o.Classes = append(o.Classes, c) }

// Violation as recorded in the statistics file.
type ViolationRec struct {
	Sig    string `json:"sig"`
	Msg    string `json:"msg"`
	Replay string `json:"replay"`
	Test   string `json:"test"`
}

// TestStats are the statistics of one check function within one process.
type TestStats struct {
	Evaluations int               `json:"evaluations"`
	Discarded   int               `json:"discarded"`
	NonTrivial  map[string]bool   `json:"nontrivial"`
	Classes     map[string]int    `json:"classes"`
	Excluded    map[string]int    `json:"excluded_known"`
	Samples     []json.RawMessage `json:"samples"`
	NTSample    json.RawMessage   `json:"nontrivial_sample,omitempty"`
	Violations  []ViolationRec    `json:"violations"`
	Exhaustive  bool              `json:"exhaustive,omitempty"`
	Completed   bool              `json:"completed"`
	Extra       map[string]int    `json:"extra,omitempty"`
}

var (
	statMu  sync.Mutex
	statAll = map[string]*TestStats{}
)

func statFor(test string) *TestStats {
	s := statAll[test]
	if s == nil {
		s = &TestStats{NonTrivial: map[string]bool{}, Classes: map[string]int{}, Excluded: map[string]int{}, Extra: map[string]int{}}
		statAll[test] = s
	}
	return s
}

// Flush writes the statistics of this process to $VERIF_STATS (if set).
func Flush() {
	statMu.Lock()
	defer statMu.Unlock()
	path := os.Getenv("VERIF_STATS")
	if path == "" {
		return
	}
	b, _ := json.Marshal(statAll)
	tmp := path + ".tmp"
	if err := os.WriteFile(tmp, b, 0o644); err == nil {
		_ = os.Rename(tmp, path)
	}
}

// MarkCompleted records that a check function ran to its end.
func MarkCompleted(test string, exhaustive bool) {
	statMu.Lock()
	s := statFor(test)
	s.Completed = true
	s.Exhaustive = exhaustive
	statMu.Unlock()
	Flush()
}

// Count adds to a free-form counter of a check.
func Count(test, key string, n int) {
	statMu.Lock()
	statFor(test).Extra[key] += n
	statMu.Unlock()
}

// KnownOpen reports whether sig is an open known finding (passed by the driver).
func KnownOpen(sig string) bool {
	for _, k := range strings.Split(os.Getenv("VERIF_KNOWN"), ",") {
		if k != "" && k == sig {
			return true
		}
	}
	return false
}

// Runner executes one serialised case; registered per check function.
type Runner func(script json.RawMessage) (*Outcome, error)

var runners = map[string]Runner{}

// Register makes a check's case runner available for replay.
func Register(test string, r Runner) { runners[test] = r }

// ReplayFile is the format of a saved reproduction.
type ReplayFile struct {
	Test      string          `json:"test"`
	Sig       string          `json:"sig,omitempty"`
	Violation string          `json:"violation,omitempty"`
	Script    json.RawMessage `json:"script"`
}

// RunReplay executes a saved reproduction without the generator library.
func RunReplay(path string) (*ReplayFile, *Outcome, error) {
	b, err := os.ReadFile(path)
	if err != nil {
		return nil, nil, err
	}
	var rf ReplayFile
	if err := json.Unmarshal(b, &rf); err != nil {
		return nil, nil, err
	}
	r := runners[rf.Test]
	if r == nil {
		return &rf, nil, fmt.Errorf("no runner registered for %q", rf.Test)
	}
	o, err := Guard(func() (*Outcome, error) { return r(rf.Script) })
	return &rf, o, err
}

var frameRe = regexp.MustCompile(`github\.com/coyim/otr3(?:/sexp)?\.([^\s(]+)\(`)
var frameRe2 = regexp.MustCompile(`github\.com/coyim/otr3(?:/sexp)?\.\(\*?([A-Za-z0-9_]+)\)\.([A-Za-z0-9_]+)`)

// PanicSig derives a stable signature from a recovered panic: the innermost
// frame that lies in the library under test.
func PanicSig(stack string) string {
	for _, line := range strings.Split(stack, "\n") {
		if !strings.Contains(line, "github.com/coyim/otr3") || strings.HasPrefix(line, "\t") {
			continue
		}
		if m := frameRe2.FindStringSubmatch(line); m != nil {
			return "panic@" + m[1] + "." + m[2]
		}
		if m := frameRe.FindStringSubmatch(line); m != nil {
			return "panic@" + m[1]
		}
	}
	return "panic@?"
}

// Guard runs f, converting a panic into a violating outcome.
func Guard(f func() (*Outcome, error)) (o *Outcome, err error) {
	defer func() {
		if r := recover(); r != nil {
			st := string(debug.Stack())
			o = &Outcome{}
			o.Fail(PanicSig(st), "panic: %v\n%s", r, trimStack(st))
			err = nil
		}
	}()
	return f()
}

func trimStack(st string) string {
	lines := strings.Split(st, "\n")
	var keep []string
	for i := 0; i < len(lines) && len(keep) < 24; i++ {
		if strings.Contains(lines[i], "coyim/otr3") || strings.Contains(lines[i], "verif/harness") {
			keep = append(keep, lines[i])
		}
	}
	return strings.Join(keep, "\n")
}

// T is the part of rapid.T / testing.T the recorder needs.
type T interface {
	Fatalf(format string, args ...interface{})
	Logf(format string, args ...interface{})
}

// Hash returns a short hash of a canonical script.
func Hash(b []byte) string {
	h := sha256.Sum256(b)
	return hex.EncodeToString(h[:8])
}

const maxSamples = 3

// Judge runs one generated case through its registered runner, records
// statistics, saves a reproduction on violation and fails t.
func Judge(t T, test string, script interface{}) *Outcome {
	raw, err := json.Marshal(script)
	if err != nil {
		t.Fatalf("marshal script: %v", err)
	}
	r := runners[test]
	if r == nil {
		t.Fatalf("no runner for %s", test)
	}
	o, err := Guard(func() (*Outcome, error) { return r(raw) })
	if err != nil {
		t.Fatalf("harness error in %s: %v", test, err)
	}
	statMu.Lock()
	s := statFor(test)
	s.Evaluations++
	if o.Discard {
		s.Discarded++
	}
	seen := map[string]bool{}
	for _, c := range o.Classes {
		if !seen[c] {
			s.Classes[c]++
			seen[c] = true
		}
	}
	if o.NonTrivial && !o.Discard {
		h := Hash(raw)
		if !s.NonTrivial[h] {
			s.NonTrivial[h] = true
			if s.NTSample == nil || len(raw) < 4000 && len(s.NonTrivial)%97 == 1 {
				s.NTSample = raw
			}
		}
	}
	if len(s.Samples) < maxSamples && len(raw) < 6000 {
		s.Samples = append(s.Samples, raw)
	}
	known := false
	if o.Violation != "" && KnownOpen(o.Sig) {
		s.Excluded[o.Sig]++
		known = true
	}
	statMu.Unlock()
	if o.Violation != "" && !known {
		path := SaveReplay(test, o, raw)
		statMu.Lock()
		// keep only the latest (rapid re-runs the minimal case last)
		s.Violations = []ViolationRec{{Sig: o.Sig, Msg: firstLines(o.Violation, 6), Replay: path, Test: test}}
		statMu.Unlock()
		Flush()
		t.Fatalf("VIOLATION %s sig=%s: %s", test, o.Sig, o.Violation)
	}
	return o
}

func firstLines(s string, n int) string {
	l := strings.Split(s, "\n")
	if len(l) > n {
		l = l[:n]
	}
	return strings.Join(l, "\n")
}

// SaveReplay writes the reproduction file for a violating case.
func SaveReplay(test string, o *Outcome, raw json.RawMessage) string {
	dir := os.Getenv("VERIF_REPLAY_DIR")
	if dir == "" {
		dir = os.TempDir()
	}
	_ = os.MkdirAll(dir, 0o755)
	path := filepath.Join(dir, test+".json")
	rf := ReplayFile{Test: test, Sig: o.Sig, Violation: firstLines(o.Violation, 12), Script: raw}
	b, _ := json.MarshalIndent(rf, "", " ")
	_ = os.WriteFile(path, b, 0o644)
	return path
}

// SortedKeys is a helper for deterministic iteration.
func SortedKeys(m map[string]int) []string {
	ks := make([]string, 0, len(m))
	for k := range m {
		ks = append(ks, k)
	}
	sort.Strings(ks)
	return ks
}

// Shard returns this process's shard index and count from VERIF_SHARD=i/n.
func Shard() (int, int) {
	var i, n int
	if _, err := fmt.Sscanf(os.Getenv("VERIF_SHARD"), "%d/%d", &i, &n); err != nil || n <= 0 {
		return 0, 1
	}
	return i, n
}

// Tier returns "quick" or "thorough".
func Tier() string {
	if os.Getenv("VERIF_TIER") == "thorough" {
		return "thorough"
	}
	return "quick"
}

// Thorough reports whether the thorough tier is running.
func Thorough() bool { return Tier() == "thorough" }
