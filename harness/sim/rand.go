// Package sim holds the machinery shared by all property checks: tracked
// randomness, party wrappers around real otr3 conversations, an adversarial
// network, an object-graph walker and the statistics collector.
package sim

import (
	"crypto/sha256"
	"encoding/binary"
	"encoding/hex"
	"errors"
	"io"
)

// Draw is one read served by a tracked randomness source.
type Draw struct {
	Idx   int    // index among the non-trivial (len != 1) reads
	N     int    // length requested
	Data  []byte // private copy of the bytes that were handed out
	Alias []byte // the caller's buffer itself (to observe zeroing, C08)
	Epoch int    // value of Rand.Epoch when drawn (set by the harness)
}

// Rand is a deterministic randomness source: the i-th read of n bytes returns
// SHA-256-CTR(seed, i, n). One-byte reads (crypto/dsa's MaybeReadByte, which
// happens non-deterministically) are answered out of band and do not advance
// the stream, so a transcript is a pure function of the seed.
type Rand struct {
	Seed   uint64
	idx    int
	hist   uint64
	nShort int
	Draws  []*Draw
	Epoch  int

	// fault injection: the read with index FailAt (>=0) fails.
	FailAt   int
	FailMode int // 0 error with no data, 1 short read then error, 2 io.EOF, 3 (0,nil) once then error
	Failed   int // how many reads failed
	FailFor  int // when > 0, only this many reads fail and the source recovers by itself
	// Override, when non-nil, supplies the bytes for the read with that index
	// (used to force instance-tag draws); missing indices fall back to the DRBG.
	Override map[int][]byte
	// Force4 is consumed by successive 4-byte reads (instance-tag generation) before the DRBG is used
	Force4 [][]byte
	// BlockAt (>= 0): the read with this index announces itself on Blocked and waits for Release (a randomness
	// source is user code and may take its time: a hardware token, an entropy daemon)
	BlockAt int
	Blocked chan struct{}
	Release chan struct{}
	// Force40 is consumed by successive 40-byte reads (D-H exponents) before the DRBG is used
	Force40 [][]byte
}

// ShortExps are 320-bit exponents x for which g^x mod p has a zero top byte (found by search; an honest party
// draws one by chance once in 256 keys): the public value is a byte shorter than usual on the wire.
var ShortExps = [][]byte{
	mustHex("c6f9d3e916b17bd7251a89ef2db276e4a62ac5316ef18798bdc4cc9ad0442af622ef3d90bf916c82"),
	mustHex("a5d6d779aee345dc02191f2ce6ec0884dcdcaf5b1d528758c019b3390eadb1833f1f57bd4dcce46f"),
	mustHex("bf113e01607c02d944be7906a4cd4bcd72fd565a14dad0290c6b8874b37189016216778ace6659d0"),
	mustHex("fa88c211a5d694fb837aa1e209b06b86ec4f1ea3fde4f91b84bad61f6d6db866bc7bebae2703090b"),
	mustHex("8c97c9e0db858dd7a4e50b9c2afd074bf2e36910a90bf8465f62093d7b87b0bfd1207567e6cb901f"),
	mustHex("45c0ec9c26b58028d3fa9097e92db3049598ce23aa1c6ab020472c439fa2656c333d2ee564292372"),
	mustHex("852aabefca2dbd2f4706ef97670d18f9213b2edbe856cbe00be59f1a2c3288e88d0120c92e87e2e3"),
	mustHex("ebb3f390c8ebb077293f4dba6931cb997f3988f47509e2719381b1b44a3a6af68ba1f5066161a282"),
	mustHex("8a6e62571e10890a5172352e0955d64c357d5f2c7a057d7b9034326c3be2a4b97b28d9cfd1e68511"),
	mustHex("8440c7deea2bb0c27082b0a3a0686ffe378fc61f2785b88f47047b49e30887dd1fbfd5c9452d2cca"),
	mustHex("9bcff4e7af3e5cc6459e4cedeb1d19dfe3e3cad2e998eb67311474849fde336a67b1fef99d40886c"),
	mustHex("5d5476fdce7e42e7aca7526bf926ac4e2526e38a8a5e3f9bad0f897290a0466cc499f437a752440e"),
	mustHex("b80a7b3e029d89baae6e002804e3b507c28a946a391dd154925393dec6df10716f0b1575c2322c42"),
	mustHex("7ba6b3fd7a46c192023ddc4b9cfee71977bf6cb92d59317048761baf78af63bf974e43d77146370c"),
	mustHex("395ceba05561d6eab2fed6e3b22d444bb8339605fbfa6d1087d46793400bb36194157eefa91fe91a"),
	mustHex("0c8d5b3c1c040875b370ecbe5023ba33914ab861a3c5e6d632bcbfdf1fc69bc71d7d10b7f51d50d3"),
	mustHex("64cd67d68474c77d9cf025db1b90bef6bb4c8b1d366873bbd5ddeb375cf4d157eabd1fce008316ab"),
	mustHex("51ac1ecea3e7fc3fc50f0030e077c1cbe78f1f66200539f5f151b5847aff447ea1dbd0dff6749e10"),
	mustHex("83406b7c7deb2414074553a2146a33b7b1419b988452c95af4a78f78f6ab62ecb69dd0183f439248"),
	mustHex("b046c8c3453b20e57cd34eb3aba8e388ac9939650df8f74ee0daf076a8707174deb2999b1f90fe14"),
	mustHex("8efed75306661763a497daad9c41aaedd74c413f98b8527f8f3ba4ca3c56d00e5fac315ec256cb94"),
	mustHex("01cf8fc1224b0b11869c4330abf8e71fa8f5a4ad5f560b7243580fa6beb4dc84f3fb98b3e4b0ade3"),
	mustHex("6bc852cfdfbf55f95a481e67f09128d317a0d51e701c506aa5135bba6f50ff5a95bd6e232ebe7af6"),
	mustHex("95497263da6f6fad913bd56452872ee6a2207eb362da52dbad518fef1ab7fc3c095ef687f4bfe687"),
}

// ArmShort makes the next 40-byte read of the source yield one of the short-public-value exponents. The two
// parties of a world draw from disjoint halves of the list (two honest parties never hold the same key), and
// each party walks through its half, so a repetition is twelve key generations away from the original.
func (r *Rand) ArmShort(party int) {
	half := len(ShortExps) / 2
	r.Force40 = append(r.Force40, ShortExps[(party&1)*half+r.nShort%half])
	r.nShort++
}

func mustHex(s string) []byte {
	b, err := hex.DecodeString(s)
	if err != nil {
		panic(err)
	}
	return b
}

// NewRand creates a healthy source.
func NewRand(seed uint64) *Rand { return &Rand{Seed: seed, FailAt: -1, BlockAt: -1} }

var errInjected = errors.New("injected randomness failure")

// Expand returns the DRBG output for read index i of length n.
func Expand(seed uint64, i, n int) []byte {
	out := make([]byte, 0, n+32)
	var hdr [20]byte
	binary.BigEndian.PutUint64(hdr[0:], seed)
	binary.BigEndian.PutUint32(hdr[8:], uint32(i))
	binary.BigEndian.PutUint32(hdr[12:], uint32(n))
	for c := uint32(0); len(out) < n; c++ {
		binary.BigEndian.PutUint32(hdr[16:], c)
		h := sha256.Sum256(hdr[:])
		out = append(out, h[:]...)
	}
	return out[:n]
}

// Read implements io.Reader.
func (r *Rand) Read(p []byte) (int, error) {
	if len(p) == 0 {
		return 0, nil
	}
	if len(p) == 1 {
		p[0] = 0x55
		return 1, nil
	}
	i := r.idx
	r.idx++
	r.hist = (r.hist ^ uint64(i)<<20 ^ uint64(len(p))) * 1099511628211
	if r.BlockAt >= 0 && i == r.BlockAt && r.Blocked != nil {
		close(r.Blocked)
		<-r.Release
	}
	if r.FailAt >= 0 && i >= r.FailAt && (r.FailFor <= 0 || i < r.FailAt+r.FailFor) {
		r.Failed++
		switch r.FailMode {
		case 1:
			n := len(p) / 2
			copy(p, Expand(r.Seed, i, n))
			return n, io.ErrUnexpectedEOF
		case 2:
			return 0, io.EOF
		default:
			return 0, errInjected
		}
	}
	var data []byte
	if len(p) == 40 && len(r.Force40) > 0 {
		data = append([]byte{}, r.Force40[0]...)
		r.Force40 = r.Force40[1:]
	} else if len(p) == 4 && len(r.Force4) > 0 {
		data = append([]byte{}, r.Force4[0]...)
		r.Force4 = r.Force4[1:]
	} else if o, ok := r.Override[i]; ok && len(o) == len(p) {
		data = append([]byte{}, o...)
	} else {
		data = Expand(r.Seed, i, len(p))
	}
	copy(p, data)
	r.Draws = append(r.Draws, &Draw{Idx: i, N: len(p), Data: data, Alias: p, Epoch: r.Epoch})
	return len(p), nil
}

// History is a digest of the sequence of reads made so far (index and size of each): two sources with the same
// seed and the same History have handed out exactly the same bytes.
func (r *Rand) History() uint64 { return r.hist }

// Reads returns the number of non-trivial reads served or attempted so far.
func (r *Rand) Reads() int { return r.idx }

// Heal switches fault injection off.
func (r *Rand) Heal() { r.FailAt = -1 }

// DrawsOfLen returns the draws of exactly n bytes, in order.
func (r *Rand) DrawsOfLen(n int) []*Draw {
	var out []*Draw
	for _, d := range r.Draws {
		if d.N == n {
			out = append(out, d)
		}
	}
	return out
}
