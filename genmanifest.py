#!/usr/bin/env python3
"""Regenerates MANIFEST.json from checkcfg.py (claimed checks) and properties.jsonl."""
import json, os, sys
ROOT = os.path.dirname(os.path.abspath(__file__))
sys.path.insert(0, ROOT)
from checkcfg import PROPS, NOT_APPLICABLE  # noqa
ids = [json.loads(l)["id"] for l in open(os.path.join(ROOT, "properties.jsonl"))]
checks = []
for pid in ids:
    if pid not in PROPS:
        continue
    c = PROPS[pid]
    checks.append({
        "property_id": pid,
        "quick_cmd": "./check %s --tier quick" % pid,
        "thorough_cmd": "./check %s --tier thorough" % pid,
        "evidence_file": "evidence/%s.json" % pid,
        "replay_cmd_template": "./check %s --replay {path}" % pid,
        "engine": "harness",
        "technique": c["technique"],
        "level_claimed": {"category": c.get("level", "exploration"), "text": c["level_text"], "design_ref": "DESIGN.md §5 " + pid},
        "level_note": c["level_note"],
    })
m = {
    "version": 1,
    "setup_cmd": "cd /verif && ./setup.sh",
    "hooks": {
        "guard": "verif",
        "enable": "no source hooks are needed: checks build an external harness module (replace github.com/coyim/otr3 => /repo) and, for C17, an in-package test injected with go test -overlay; the tag is reserved and unused",
        "baseline_off_cmd": "cd /repo && GOFLAGS=-mod=mod GOPROXY=off GOSUMDB=off GOTOOLCHAIN=local go test -json -vet=off -count=1 -timeout 25m ./...",
        "source_commits": [],
        "add_only": True,
    },
    "engines": [
        {"name": "harness", "path": "harness/", "serves_properties": sorted(PROPS),
         "kind_free_text": "Go module: sim (tracked DRBG, parties, adversarial network, object-graph walker, statistics), ref (independent OTR v2/v3 implementation: observer, peer, mutator), props (rapid properties, bounded-exhaustive enumerations, replays, fuzz targets)"},
        {"name": "driver", "path": "check", "serves_properties": sorted(PROPS),
         "kind_free_text": "python3 driver: rebuilds the harness against /repo's working tree, runs regression replays, known-finding witnesses and the sharded generated search, merges statistics into evidence/<id>.json"},
    ],
    "checks": checks,
    "not_applicable": [{"property_id": i, "reason": NOT_APPLICABLE.get(i, "check under construction in this session (not yet claimed); the technique applies, see DESIGN.md §5")} for i in ids if i not in PROPS],
    "notes": "All checks are property-based tests / bounded-exhaustive enumerations / fuzz targets with explicit oracles; see DESIGN.md. Known findings: known_findings.txt.",
}
json.dump(m, open(os.path.join(ROOT, "MANIFEST.json"), "w"), indent=1)
print("claimed:", [c["property_id"] for c in checks])
