package otr3

// In-package round-trip checks for C17, injected with `go test -overlay` (never written to /repo).
// They touch unexported (de)serialisers; if a name changes the build fails and the driver
// reports the check as inconclusive, never as a violation.

import (
	"bytes"
	"crypto/sha1"
	"crypto/sha256"
	"encoding/hex"
	"encoding/json"
	"fmt"
	"math/big"
	"os"
	"path/filepath"
	"reflect"
	"strings"
	"sync"
	"testing"

	"pgregory.net/rapid"
)

// ---- minimal statistics writer, same file format as harness/sim (which cannot be imported here: import cycle) ----

type vViolation struct {
	Sig    string `json:"sig"`
	Msg    string `json:"msg"`
	Replay string `json:"replay"`
	Test   string `json:"test"`
}

type vStats struct {
	Evaluations int               `json:"evaluations"`
	Discarded   int               `json:"discarded"`
	NonTrivial  map[string]bool   `json:"nontrivial"`
	Classes     map[string]int    `json:"classes"`
	Excluded    map[string]int    `json:"excluded_known"`
	Samples     []json.RawMessage `json:"samples"`
	NTSample    json.RawMessage   `json:"nontrivial_sample,omitempty"`
	Violations  []vViolation      `json:"violations"`
	Exhaustive  bool              `json:"exhaustive,omitempty"`
	Completed   bool              `json:"completed"`
}

var (
	vMu  sync.Mutex
	vAll = map[string]*vStats{}
)

func vFor(test string) *vStats {
	s := vAll[test]
	if s == nil {
		s = &vStats{NonTrivial: map[string]bool{}, Classes: map[string]int{}, Excluded: map[string]int{}}
		vAll[test] = s
	}
	return s
}

func vFlush() {
	path := os.Getenv("VERIF_STATS")
	if path == "" {
		return
	}
	b, _ := json.Marshal(vAll)
	_ = os.WriteFile(path+".tmp", b, 0o644)
	_ = os.Rename(path+".tmp", path)
}

type vT interface {
	Fatalf(string, ...interface{})
}

// vCase records one evaluated case; violation != "" fails t after saving a reproduction.
func vCase(t vT, test string, sample interface{}, nontrivial bool, class string, sig, violation string) {
	raw, _ := json.Marshal(sample)
	vMu.Lock()
	s := vFor(test)
	s.Evaluations++
	if class != "" {
		s.Classes[class]++
	}
	if nontrivial {
		h := sha256.Sum256(raw)
		k := hex.EncodeToString(h[:8])
		if !s.NonTrivial[k] {
			s.NonTrivial[k] = true
			if s.NTSample == nil && len(raw) < 3000 {
				s.NTSample = raw
			}
		}
	}
	if len(s.Samples) < 3 && len(raw) < 3000 {
		s.Samples = append(s.Samples, raw)
	}
	if violation != "" {
		dir := os.Getenv("VERIF_REPLAY_DIR")
		if dir == "" {
			dir = os.TempDir()
		}
		_ = os.MkdirAll(dir, 0o755)
		path := filepath.Join(dir, test+".json")
		rf, _ := json.MarshalIndent(map[string]interface{}{"test": test, "sig": sig, "violation": violation, "script": json.RawMessage(raw)}, "", " ")
		_ = os.WriteFile(path, rf, 0o644)
		s.Violations = []vViolation{{Sig: sig, Msg: violation, Replay: path, Test: test}}
	}
	vMu.Unlock()
	if violation != "" {
		vFlush()
		t.Fatalf("VIOLATION %s sig=%s: %s", test, sig, violation)
	}
}

func vDone(test string) {
	vMu.Lock()
	vFor(test).Completed = true
	vMu.Unlock()
	vFlush()
}

// ---- generators ----

func genBytesV(t *rapid.T, label string) []byte {
	switch rapid.IntRange(0, 5).Draw(t, label+"class") {
	case 0:
		return []byte{}
	case 1:
		return rapid.SliceOfN(rapid.Byte(), 1, 3).Draw(t, label)
	case 2:
		return append([]byte{0, 0}, rapid.SliceOfN(rapid.Byte(), 0, 20).Draw(t, label)...) // leading zeros
	case 3:
		return bytes.Repeat([]byte{0xff}, rapid.IntRange(1, 300).Draw(t, label+"n"))
	default:
		return rapid.SliceOfN(rapid.Byte(), 0, 200).Draw(t, label)
	}
}

func genIntV(t *rapid.T, label string) *big.Int {
	switch rapid.IntRange(0, 6).Draw(t, label+"class") {
	case 0:
		return big.NewInt(0)
	case 1:
		return big.NewInt(int64(rapid.IntRange(1, 255).Draw(t, label)))
	case 2:
		return new(big.Int).Set(p)
	case 3:
		return new(big.Int).Lsh(big.NewInt(1), uint(8*rapid.IntRange(1, 200).Draw(t, label+"sh"))) // 1 followed by zero bytes
	case 4:
		return new(big.Int).Sub(new(big.Int).Lsh(big.NewInt(1), uint(8*rapid.IntRange(1, 200).Draw(t, label+"sh"))), big.NewInt(1)) // all ones
	default:
		return new(big.Int).SetBytes(rapid.SliceOfN(rapid.Byte(), 1, 200).Draw(t, label))
	}
}

func hx(b []byte) string { return hex.EncodeToString(b) }

func intsHex(v ...*big.Int) []string {
	out := make([]string, len(v))
	for i, x := range v {
		out[i] = x.Text(16)
	}
	return out
}

// checkMinimalMPIs walks an encoding made only of MPIs and checks minimal form and exact lengths.
func checkMPIs(enc []byte, n int) string {
	rest := enc
	for i := 0; i < n; i++ {
		if len(rest) < 4 {
			return fmt.Sprintf("MPI %d: length prefix missing", i)
		}
		l := int(DeserializeWord(rest))
		if len(rest) < 4+l {
			return fmt.Sprintf("MPI %d: length prefix %d exceeds content", i, l)
		}
		if l > 0 && rest[4] == 0 {
			return fmt.Sprintf("MPI %d is not minimal (leading zero byte)", i)
		}
		rest = rest[4+l:]
	}
	if len(rest) != 0 {
		return fmt.Sprintf("%d bytes left over after %d MPIs", len(rest), n)
	}
	return ""
}

func eqInts(a, b []*big.Int) bool {
	if len(a) != len(b) {
		return false
	}
	for i := range a {
		if a[i] == nil || b[i] == nil || a[i].Cmp(b[i]) != 0 {
			return false
		}
	}
	return true
}

// ---- protocol structures ----

func TestProp_C17_Structs(t *testing.T) {
	defer vDone("C17structs")
	rapid.Check(t, func(rt *rapid.T) {
		kind := rapid.SampledFrom([]string{"dhCommit", "dhKey", "revealSig", "sig", "dataMsg", "plainDataMsg", "tlv", "smp1", "smp1q", "smp2", "smp3", "smp4", "append"}).Draw(rt, "kind")
		fail := func(sample interface{}, sig, f string, a ...interface{}) {
			vCase(rt, "C17structs", sample, true, kind, "C17/"+sig, fmt.Sprintf(f, a...))
		}
		boundary := false
		note := func(b []byte) []byte {
			if len(b) == 0 || len(b) >= 255 {
				boundary = true
			}
			return b
		}
		var sample interface{}
		switch kind {
		case "dhCommit":
			v := dhCommit{encryptedGx: note(genBytesV(rt, "gx")), yhashedGx: note(genBytesV(rt, "h"))}
			sample = map[string]string{"kind": kind, "gx": hx(v.encryptedGx), "h": hx(v.yhashedGx)}
			enc := v.serialize()
			var w dhCommit
			if err := w.deserialize(enc); err != nil || !bytes.Equal(w.encryptedGx, v.encryptedGx) || !bytes.Equal(w.yhashedGx, v.yhashedGx) {
				fail(sample, "dhCommit", "dhCommit does not survive the round trip (err=%v)", err)
			}
			if len(enc) != 8+len(v.encryptedGx)+len(v.yhashedGx) {
				fail(sample, "length", "dhCommit encoding has %d bytes for contents of %d", len(enc), len(v.encryptedGx)+len(v.yhashedGx))
			}
		case "dhKey":
			v := dhKey{gy: genIntV(rt, "gy")}
			sample = map[string]string{"kind": kind, "gy": v.gy.Text(16)}
			boundary = v.gy.Sign() == 0
			enc := v.serialize()
			var w dhKey
			if err := w.deserialize(enc); err != nil || w.gy.Cmp(v.gy) != 0 {
				fail(sample, "dhKey", "dhKey does not survive the round trip (err=%v)", err)
			}
			if m := checkMPIs(enc, 1); m != "" {
				fail(sample, "mpi", "dhKey: %s", m)
			}
		case "revealSig", "sig":
			x := note(genBytesV(rt, "x"))
			mac := rapid.SliceOfN(rapid.Byte(), 20, 32).Draw(rt, "mac")
			sample = map[string]string{"kind": kind, "x": hx(x), "mac": hx(mac)}
			if kind == "revealSig" {
				v := revealSig{encryptedSig: AppendData(nil, x), macSig: mac}
				copy(v.r[:], rapid.SliceOfN(rapid.Byte(), 16, 16).Draw(rt, "r"))
				for _, ver := range []otrVersion{otrV2{}, otrV3{}} {
					var w revealSig
					if err := w.deserialize(v.serialize(ver), ver); err != nil || w.r != v.r || !bytes.Equal(w.encryptedSig, x) || !bytes.Equal(w.macSig, mac[:20]) {
						fail(sample, "revealSig", "revealSig does not survive the round trip (err=%v)", err)
					}
				}
			} else {
				v := sig{encryptedSig: AppendData(nil, x), macSig: mac}
				var w sig
				if err := w.deserialize(v.serialize(otrV3{})); err != nil || !bytes.Equal(w.encryptedSig, x) || !bytes.Equal(w.macSig, mac[:20]) {
					fail(sample, "sig", "sig does not survive the round trip (err=%v)", err)
				}
			}
		case "dataMsg":
			v := dataMsg{flag: rapid.Byte().Draw(rt, "flag"), senderKeyID: rapid.Uint32().Draw(rt, "s"), recipientKeyID: rapid.Uint32().Draw(rt, "r"),
				y: genIntV(rt, "y"), encryptedMsg: note(genBytesV(rt, "enc")), authenticator: rapid.SliceOfN(rapid.Byte(), 20, 20).Draw(rt, "mac")}
			ctr := rapid.Uint64Range(1, ^uint64(0)).Draw(rt, "ctr")
			copy(v.topHalfCtr[:], SerializeLong(ctr))
			nk := rapid.IntRange(0, 4).Draw(rt, "nkeys")
			for i := 0; i < nk; i++ {
				v.oldMACKeys = append(v.oldMACKeys, macKey(rapid.SliceOfN(rapid.Byte(), 20, 20).Draw(rt, "k")))
			}
			boundary = boundary || nk == 0 || v.y.Sign() == 0
			sample = map[string]interface{}{"kind": kind, "flag": v.flag, "s": v.senderKeyID, "r": v.recipientKeyID, "y": v.y.Text(16), "ctr": ctr, "enc": hx(v.encryptedMsg), "nkeys": nk}
			enc := v.serialize(otrV3{})
			var w dataMsg
			if err := w.deserialize(enc, otrV3{}); err != nil {
				fail(sample, "dataMsg", "serialised dataMsg is not accepted: %v", err)
			}
			if w.flag != v.flag || w.senderKeyID != v.senderKeyID || w.recipientKeyID != v.recipientKeyID || w.y.Cmp(v.y) != 0 || w.topHalfCtr != v.topHalfCtr ||
				!bytes.Equal(w.encryptedMsg, v.encryptedMsg) || !bytes.Equal(w.authenticator, v.authenticator) || len(w.oldMACKeys) != nk {
				fail(sample, "dataMsg", "dataMsg does not survive the round trip")
			}
			for i := range w.oldMACKeys {
				if !bytes.Equal(w.oldMACKeys[i], v.oldMACKeys[i]) {
					fail(sample, "dataMsg", "disclosed MAC key %d changed in the round trip", i)
				}
			}
			if again := w.serialize(otrV3{}); !bytes.Equal(again, enc) {
				fail(sample, "dataMsg", "re-serialising the parsed dataMsg gives different bytes")
			}
		case "plainDataMsg", "tlv":
			msg := bytes.ReplaceAll(genBytesV(rt, "msg"), []byte{0}, []byte{1})
			var tlvs []tlv
			n := rapid.IntRange(0, 4).Draw(rt, "ntlv")
			if kind == "tlv" {
				n = 1
			}
			var desc []string
			for i := 0; i < n; i++ {
				var val []byte
				switch rapid.IntRange(0, 3).Draw(rt, "vclass") {
				case 0:
					val = []byte{}
					boundary = true
				case 1:
					val = make([]byte, 65535)
					boundary = true
				default:
					val = rapid.SliceOfN(rapid.Byte(), 0, 300).Draw(rt, "val")
				}
				tt := tlv{tlvType: uint16(rapid.IntRange(0, 9).Draw(rt, "type")), tlvLength: uint16(len(val)), tlvValue: val}
				tlvs = append(tlvs, tt)
				desc = append(desc, fmt.Sprintf("%d:%d", tt.tlvType, len(val)))
			}
			sample = map[string]interface{}{"kind": kind, "msg": hx(msg), "tlvs": desc}
			if kind == "tlv" {
				var w tlv
				enc := tlvs[0].serialize()
				if err := w.deserialize(enc); err != nil || w.tlvType != tlvs[0].tlvType || w.tlvLength != tlvs[0].tlvLength || !bytes.Equal(w.tlvValue, tlvs[0].tlvValue) {
					fail(sample, "tlv", "tlv does not survive the round trip (err=%v)", err)
				}
				if len(enc) != 4+len(tlvs[0].tlvValue) {
					fail(sample, "length", "tlv encoding length %d for a value of %d", len(enc), len(tlvs[0].tlvValue))
				}
				break
			}
			v := plainDataMsg{message: msg, tlvs: tlvs}
			var w plainDataMsg
			if err := w.deserialize(v.serialize()); err != nil {
				fail(sample, "plainDataMsg", "serialised plainDataMsg is not accepted: %v", err)
			}
			if !bytes.Equal(w.message, msg) || len(w.tlvs) != len(tlvs) {
				fail(sample, "plainDataMsg", "plainDataMsg round trip: message equal=%v, %d TLVs became %d", bytes.Equal(w.message, msg), len(tlvs), len(w.tlvs))
			}
			for i := range w.tlvs {
				if w.tlvs[i].tlvType != tlvs[i].tlvType || !bytes.Equal(w.tlvs[i].tlvValue, tlvs[i].tlvValue) {
					fail(sample, "plainDataMsg", "TLV %d changed in the round trip", i)
				}
			}
		case "smp1", "smp1q", "smp2", "smp3", "smp4":
			n := map[string]int{"smp1": 6, "smp1q": 6, "smp2": 11, "smp3": 8, "smp4": 3}[kind]
			vals := make([]*big.Int, n)
			for i := range vals {
				vals[i] = genIntV(rt, "v")
				if vals[i].Sign() == 0 {
					boundary = true
				}
			}
			q := ""
			if kind == "smp1q" {
				if rapid.Bool().Draw(rt, "qraw") {
					// a question is a string of bytes that ends at the first NUL: any encoding (or none) may be in it
					qb := rapid.SliceOfN(rapid.ByteRange(1, 255), 0, 40).Draw(rt, "qbytes")
					q = string(qb)
				} else {
					q = rapid.StringOfN(rapid.RuneFrom([]rune("abc ?ü\t")), 0, 40, -1).Draw(rt, "q")
				}
				boundary = boundary || q == ""
			}
			sample = map[string]interface{}{"kind": kind, "vals": intsHex(vals...), "q": q}
			var tl tlv
			var got []*big.Int
			var ok bool
			switch kind {
			case "smp1", "smp1q":
				m := smp1Message{g2a: vals[0], c2: vals[1], d2: vals[2], g3a: vals[3], c3: vals[4], d3: vals[5], hasQuestion: kind == "smp1q", question: q}
				tl = m.tlv()
				var w smpMessage
				w, ok = tl.smpMessage()
				if ok {
					x := w.(smp1Message)
					got = []*big.Int{x.g2a, x.c2, x.d2, x.g3a, x.c3, x.d3}
					if x.hasQuestion != m.hasQuestion || x.question != q {
						fail(sample, "smp-question", "SMP1 question %q came back as %q (hasQuestion %v)", q, x.question, x.hasQuestion)
					}
				}
			case "smp2":
				m := smp2Message{g2b: vals[0], c2: vals[1], d2: vals[2], g3b: vals[3], c3: vals[4], d3: vals[5], pb: vals[6], qb: vals[7], cp: vals[8], d5: vals[9], d6: vals[10]}
				tl = m.tlv()
				var w smpMessage
				w, ok = tl.smpMessage()
				if ok {
					x := w.(smp2Message)
					got = []*big.Int{x.g2b, x.c2, x.d2, x.g3b, x.c3, x.d3, x.pb, x.qb, x.cp, x.d5, x.d6}
				}
			case "smp3":
				m := smp3Message{pa: vals[0], qa: vals[1], cp: vals[2], d5: vals[3], d6: vals[4], ra: vals[5], cr: vals[6], d7: vals[7]}
				tl = m.tlv()
				var w smpMessage
				w, ok = tl.smpMessage()
				if ok {
					x := w.(smp3Message)
					got = []*big.Int{x.pa, x.qa, x.cp, x.d5, x.d6, x.ra, x.cr, x.d7}
				}
			case "smp4":
				m := smp4Message{rb: vals[0], cr: vals[1], d7: vals[2]}
				tl = m.tlv()
				var w smpMessage
				w, ok = tl.smpMessage()
				if ok {
					x := w.(smp4Message)
					got = []*big.Int{x.rb, x.cr, x.d7}
				}
			}
			if !ok || !eqInts(got, vals) {
				fail(sample, "smp", "%s does not survive TLV round trip (parsed ok=%v)", kind, ok)
			}
			if int(tl.tlvLength) != len(tl.tlvValue) {
				fail(sample, "length", "%s TLV length field %d for a value of %d bytes", kind, tl.tlvLength, len(tl.tlvValue))
			}
			body := tl.tlvValue
			if kind == "smp1q" {
				body = body[len(q)+1:]
			}
			if m := checkMPIs(body[4:], n); m != "" || int(DeserializeWord(body)) != n {
				fail(sample, "mpi", "%s: count %d, %s", kind, DeserializeWord(body), m)
			}
		case "append":
			s16, s32, s64 := rapid.Uint16().Draw(rt, "s16"), rapid.Uint32().Draw(rt, "s32"), rapid.Uint64().Draw(rt, "s64")
			d, n := note(genBytesV(rt, "d")), genIntV(rt, "n")
			list := []*big.Int{genIntV(rt, "a"), genIntV(rt, "b"), genIntV(rt, "c")}[:rapid.IntRange(0, 3).Draw(rt, "nl")]
			sample = map[string]interface{}{"kind": kind, "s16": s16, "s32": s32, "s64": s64, "d": hx(d), "n": n.Text(16), "list": intsHex(list...)}
			enc := AppendMPIs(AppendWord(AppendMPI(AppendData(AppendLong(AppendWord(AppendShort([]byte{0xaa}, s16), s32), s64), d), n), uint32(len(list))), list...)
			r0, b0, ok0 := ExtractByte(enc)
			r1, g16, ok1 := ExtractShort(r0)
			r2, g32, ok2 := ExtractWord(r1)
			r3, g64, ok3 := ExtractLong(r2)
			r4, gd, ok4 := ExtractData(r3)
			r5, gn, ok5 := ExtractMPI(r4)
			r6, gl, ok6 := ExtractMPIs(r5)
			if !(ok0 && ok1 && ok2 && ok3 && ok4 && ok5 && ok6) || b0 != 0xaa || g16 != s16 || g32 != s32 || g64 != s64 || !bytes.Equal(gd, d) || gn.Cmp(n) != 0 || !eqInts(gl, list) || len(r6) != 0 {
				fail(sample, "append-extract", "Append*/Extract* do not round trip")
			}
			if m := checkMPIs(AppendMPI(nil, n), 1); m != "" {
				fail(sample, "mpi", "AppendMPI: %s", m)
			}
			boundary = boundary || n.Sign() == 0 || len(list) == 0
		}
		vCase(rt, "C17structs", sample, boundary, kind, "", "")
	})
}

// ---- keys: wire form, fingerprint input, libotr key files ----

var testKeysOnce sync.Once
var testKeys []*DSAPrivateKey

func poolKeysV(t interface{ Fatalf(string, ...interface{}) }) []*DSAPrivateKey {
	testKeysOnce.Do(func() {
		b, err := os.ReadFile(filepath.Join(os.Getenv("VERIF_KEYS"), "pool.txt"))
		if err != nil {
			return
		}
		for _, l := range strings.Fields(string(b)) {
			raw, _ := hex.DecodeString(l)
			k := &DSAPrivateKey{}
			if _, ok := k.Parse(raw); ok {
				testKeys = append(testKeys, k)
			}
		}
	})
	if len(testKeys) == 0 {
		t.Fatalf("key pool not available (VERIF_KEYS)")
	}
	return testKeys
}

func TestProp_C17_Keys(t *testing.T) {
	defer vDone("C17keys")
	keys := poolKeysV(t)
	dir := t.TempDir()
	rapid.Check(t, func(rt *rapid.T) {
		kind := rapid.SampledFrom([]string{"wire", "keyfile", "keyfile", "smallkey"}).Draw(rt, "kind")
		fail := func(sample interface{}, sig, f string, a ...interface{}) {
			vCase(rt, "C17keys", sample, true, kind, "C17/"+sig, fmt.Sprintf(f, a...))
		}
		switch kind {
		case "wire", "smallkey":
			k := keys[rapid.IntRange(0, len(keys)-1).Draw(rt, "key")]
			if kind == "smallkey" {
				// arbitrary (not cryptographically valid) parameter values, including zero
				k = &DSAPrivateKey{}
				k.PrivateKey.P, k.PrivateKey.Q, k.PrivateKey.G, k.PrivateKey.Y, k.PrivateKey.X = genIntV(rt, "p"), genIntV(rt, "q"), genIntV(rt, "g"), genIntV(rt, "y"), genIntV(rt, "x")
				k.DSAPublicKey.PublicKey = k.PrivateKey.PublicKey
			}
			sample := map[string]interface{}{"kind": kind, "params": intsHex(k.PrivateKey.P, k.PrivateKey.Q, k.PrivateKey.G, k.PrivateKey.Y, k.PrivateKey.X)}
			enc := k.Serialize()
			w := &DSAPrivateKey{}
			rest, ok := w.Parse(enc)
			if !ok || len(rest) != 0 || w.PrivateKey.X.Cmp(k.PrivateKey.X) != 0 || w.PrivateKey.P.Cmp(k.PrivateKey.P) != 0 || w.PrivateKey.Q.Cmp(k.PrivateKey.Q) != 0 || w.PrivateKey.G.Cmp(k.PrivateKey.G) != 0 || w.PrivateKey.Y.Cmp(k.PrivateKey.Y) != 0 {
				fail(sample, "private-key", "private key does not survive Serialize/Parse (ok=%v, %d bytes left)", ok, len(rest))
			}
			if w.DSAPublicKey.Y.Cmp(k.PrivateKey.Y) != 0 {
				fail(sample, "private-key", "parsed private key has an inconsistent public half")
			}
			pubEnc := k.PublicKey().(*DSAPublicKey).serialize()
			_, okp, pk := ParsePublicKey(pubEnc)
			if !okp || !bytes.Equal(pk.(*DSAPublicKey).serialize(), pubEnc) {
				fail(sample, "public-key", "public key does not survive serialize/ParsePublicKey")
			}
			_, okq, prk := ParsePrivateKey(enc)
			if !okq || !bytes.Equal(prk.Serialize(), enc) {
				fail(sample, "private-key", "ParsePrivateKey(Serialize()) re-serialises differently")
			}
			if m := checkMPIs(enc[2:], 5); m != "" || enc[0] != 0 || enc[1] != 0 {
				fail(sample, "mpi", "private key encoding: %s", m)
			}
			fp := sha1.Sum(pubEnc[2:])
			if !bytes.Equal(k.PublicKey().Fingerprint(), fp[:]) || !bytes.Equal(pk.Fingerprint(), fp[:]) {
				fail(sample, "fingerprint", "fingerprint is not SHA-1 of the serialised key without its type field")
			}
			vCase(rt, "C17keys", sample, kind == "smallkey", kind, "", "")
		case "keyfile":
			n := rapid.IntRange(0, 3).Draw(rt, "naccounts")
			var accs []*Account
			var desc []string
			special := false
			for i := 0; i < n; i++ {
				// permitted: anything a quoted string can hold (no double quote), any symbol for the protocol
				name := rapid.StringOfN(rapid.RuneFrom([]rune("abcXYZ019@./_- \\\t'()#;:üé %")), 0, 24, -1).Draw(rt, "name")
				proto := rapid.StringOfN(rapid.RuneFrom([]rune("abcxyz-_.019:\\%")), 1, 12, -1).Draw(rt, "proto")
				if strings.ContainsAny(name, "\\\t()#;ü%") || name == "" {
					special = true
				}
				accs = append(accs, &Account{Name: name, Protocol: proto, Key: keys[rapid.IntRange(0, len(keys)-1).Draw(rt, "key")]})
				desc = append(desc, fmt.Sprintf("%q/%q", name, proto))
			}
			sample := map[string]interface{}{"kind": kind, "accounts": desc}
			path := filepath.Join(dir, "keys")
			if err := ExportKeysToFile(accs, path); err != nil {
				rt.Fatalf("export: %v", err)
			}
			got, err := ImportKeysFromFile(path)
			if err != nil || len(got) != len(accs) {
				fail(sample, "keyfile", "key file with %d accounts imports as %d (err=%v)", len(accs), len(got), err)
			}
			for i := range got {
				if got[i].Name != accs[i].Name || got[i].Protocol != accs[i].Protocol {
					fail(sample, "keyfile-name", "account %d %q/%q came back as %q/%q", i, accs[i].Name, accs[i].Protocol, got[i].Name, got[i].Protocol)
				}
				if !bytes.Equal(got[i].Key.Serialize(), accs[i].Key.Serialize()) {
					fail(sample, "keyfile-key", "key of account %d changed in the key-file round trip", i)
				}
			}
			vCase(rt, "C17keys", sample, special || n == 0 || n > 1, kind, "", "")
		}
	})
}

// ---- parse idempotence on arbitrary accepted bytes ----

func TestProp_C17_Idempotent(t *testing.T) {
	defer vDone("C17idempotent")
	keys := poolKeysV(t)
	rapid.Check(t, func(rt *rapid.T) {
		kind := rapid.SampledFrom([]string{"dhCommit", "dhKey", "dataMsg", "tlv", "plainDataMsg", "publicKey", "mpis", "smp"}).Draw(rt, "kind")
		// inputs: random bytes, or a valid encoding with mutations
		var in []byte
		valid := func() []byte {
			switch kind {
			case "dhCommit":
				return dhCommit{encryptedGx: genBytesV(rt, "a"), yhashedGx: genBytesV(rt, "b")}.serialize()
			case "dhKey":
				return dhKey{gy: genIntV(rt, "gy")}.serialize()
			case "dataMsg":
				v := dataMsg{senderKeyID: 1, recipientKeyID: 2, y: genIntV(rt, "y"), encryptedMsg: genBytesV(rt, "e"), authenticator: make([]byte, 20), oldMACKeys: []macKey{make([]byte, 20)}}
				v.topHalfCtr[7] = 1
				return v.serialize(otrV3{})
			case "tlv":
				val := genBytesV(rt, "v")
				return tlv{tlvType: 3, tlvLength: uint16(len(val)), tlvValue: val}.serialize()
			case "plainDataMsg":
				return plainDataMsg{message: []byte("hi"), tlvs: []tlv{{tlvType: 1}, {tlvType: 0, tlvLength: 3, tlvValue: []byte{1, 2, 3}}}}.serialize()
			case "publicKey":
				return keys[0].PublicKey().(*DSAPublicKey).serialize()
			case "smp":
				return smp4Message{rb: genIntV(rt, "a"), cr: genIntV(rt, "b"), d7: genIntV(rt, "c")}.tlv().serialize()
			}
			return AppendMPIs(AppendWord(nil, 2), genIntV(rt, "a"), genIntV(rt, "b"))
		}
		switch rapid.IntRange(0, 3).Draw(rt, "inkind") {
		case 0:
			in = rapid.SliceOfN(rapid.Byte(), 0, 120).Draw(rt, "raw")
		case 1:
			in = valid()
		case 2:
			in = valid()
			if len(in) > 0 {
				i := rapid.IntRange(0, len(in)-1).Draw(rt, "pos")
				in[i] = rapid.Byte().Draw(rt, "val")
			}
		default:
			in = append(valid(), rapid.SliceOfN(rapid.Byte(), 0, 8).Draw(rt, "tail")...)
			// leading zero byte in the first MPI-like field: set a zero after the first length prefix if there is room
			if len(in) > 6 {
				in[4] = 0
			}
		}
		sample := map[string]string{"kind": kind, "in": hx(in)}
		fail := func(sig, f string, a ...interface{}) {
			vCase(rt, "C17idempotent", sample, true, kind, "C17/"+sig, fmt.Sprintf(f, a...))
		}
		accepted := false
		switch kind {
		case "dhCommit":
			var a, b dhCommit
			if a.deserialize(in) == nil {
				accepted = true
				if err := b.deserialize(a.serialize()); err != nil || !reflect.DeepEqual(a, b) {
					fail("idempotence", "dhCommit: parse(serialize(parse(b))) differs from parse(b) (err=%v)", err)
				}
			}
		case "dhKey":
			var a, b dhKey
			if a.deserialize(in) == nil {
				accepted = true
				enc := a.serialize()
				if err := b.deserialize(enc); err != nil || a.gy.Cmp(b.gy) != 0 {
					fail("idempotence", "dhKey: re-parse differs (err=%v)", err)
				}
				if m := checkMPIs(enc, 1); m != "" {
					fail("mpi", "dhKey re-serialised: %s", m)
				}
			}
		case "dataMsg":
			var a, b dataMsg
			if a.deserialize(in, otrV3{}) == nil {
				accepted = true
				a.serializeUnsignedCache = nil
				enc := a.serialize(otrV3{})
				if err := b.deserialize(enc, otrV3{}); err != nil {
					fail("idempotence", "dataMsg: the re-serialisation of an accepted message is rejected: %v", err)
				}
				if a.flag != b.flag || a.senderKeyID != b.senderKeyID || a.recipientKeyID != b.recipientKeyID || a.y.Cmp(b.y) != 0 || a.topHalfCtr != b.topHalfCtr ||
					!bytes.Equal(a.encryptedMsg, b.encryptedMsg) || !bytes.Equal(a.authenticator, b.authenticator) || len(a.oldMACKeys) != len(b.oldMACKeys) {
					fail("idempotence", "dataMsg: re-parse differs")
				}
			}
		case "tlv":
			var a, b tlv
			if a.deserialize(in) == nil {
				accepted = true
				if err := b.deserialize(a.serialize()); err != nil || a.tlvType != b.tlvType || a.tlvLength != b.tlvLength || !bytes.Equal(a.tlvValue, b.tlvValue) {
					fail("idempotence", "tlv: re-parse differs (err=%v)", err)
				}
				if int(a.tlvLength) != len(a.tlvValue) {
					fail("length", "parsed tlv has length field %d and %d value bytes", a.tlvLength, len(a.tlvValue))
				}
			}
		case "plainDataMsg":
			var a, b plainDataMsg
			if a.deserialize(in) == nil {
				accepted = true
				if err := b.deserialize(a.serialize()); err != nil || !bytes.Equal(a.message, b.message) || len(a.tlvs) != len(b.tlvs) {
					fail("idempotence", "plainDataMsg: re-parse differs (err=%v, %d vs %d TLVs)", err, len(a.tlvs), len(b.tlvs))
				}
				for i := range b.tlvs {
					if a.tlvs[i].tlvType != b.tlvs[i].tlvType || !bytes.Equal(a.tlvs[i].tlvValue, b.tlvs[i].tlvValue) {
						fail("idempotence", "plainDataMsg: TLV %d differs after re-parse", i)
					}
				}
			}
		case "publicKey":
			if _, ok, k := ParsePublicKey(in); ok {
				accepted = true
				enc := k.(*DSAPublicKey).serialize()
				_, ok2, k2 := ParsePublicKey(enc)
				if !ok2 || !bytes.Equal(k2.(*DSAPublicKey).serialize(), enc) {
					fail("idempotence", "public key: re-parse differs")
				}
				if m := checkMPIs(enc[2:], 4); m != "" {
					fail("mpi", "public key re-serialised: %s", m)
				}
			}
		case "mpis":
			if rest, v, ok := ExtractMPIs(in); ok {
				accepted = true
				enc := AppendMPIs(AppendWord(nil, uint32(len(v))), v...)
				r2, v2, ok2 := ExtractMPIs(enc)
				if !ok2 || len(r2) != 0 || !eqInts(v, v2) {
					fail("idempotence", "MPI list: re-parse differs")
				}
				if m := checkMPIs(enc[4:], len(v)); m != "" {
					fail("mpi", "MPI list re-serialised: %s", m)
				}
				_ = rest
			}
		case "smp":
			var a tlv
			if a.deserialize(in) == nil && a.tlvType == tlvTypeSMP4 {
				if m, ok := a.smpMessage(); ok {
					accepted = true
					x := m.(smp4Message)
					m2, ok2 := x.tlv().smpMessage()
					if !ok2 || !eqInts([]*big.Int{x.rb, x.cr, x.d7}, []*big.Int{m2.(smp4Message).rb, m2.(smp4Message).cr, m2.(smp4Message).d7}) {
						fail("idempotence", "SMP4: re-parse differs")
					}
				}
			}
		}
		cls := kind + "-rejected"
		if accepted {
			cls = kind + "-accepted"
		}
		vCase(rt, "C17idempotent", sample, accepted, cls, "", "")
	})
}
