#!/bin/sh
# developer convenience: build the props test binary against a scratch checkout of /repo's HEAD
# (/dev/shm/otr3-head) so that work can continue while /repo itself carries a seeded change
export GOFLAGS=-mod=mod GOPROXY=off GOSUMDB=off GOTOOLCHAIN=local
cd /verif/harness && go test -c -vet=off -modfile=/tmp/headmod/go.mod -o /tmp/props.test ./props
