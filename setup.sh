#!/bin/sh
# Offline setup: warms the Go build cache for the harness; everything else is rebuilt by ./check.
set -e
export GOFLAGS=-mod=mod GOPROXY=off GOSUMDB=off GOTOOLCHAIN=local
cd "$(dirname "$0")/harness"
go test -c -vet=off -o /dev/null ./props
echo setup ok
