"""Per-property configuration of the checks: which test functions decide a
property, with what budgets per tier, and the texts that go into the evidence."""

COMMON_ASSUME = [
    "cryptographic primitives (AES, SHA-1/256, HMAC, DSA, DH in the 1536-bit group) are assumed strong; only their correct use is tested",
    "the harness drives real otr3.Conversation objects through the public API; randomness is a tracked deterministic DRBG supplied as Conversation.Rand",
]

PROPS = {
    "C04": {
        "level": "exploration",
        "rule": ("rapid-generated schedules of Send/deliver/age-clock/SMP/extra-key steps over two FIFO queues after a real AKE "
                 "(v2/v3, fragment sizes 0 and [H+1,65535], texts: unique token + filler of 5 kinds, 0..5000 bytes), plus the bounded-exhaustive "
                 "enumeration of all words over {send A, send B, deliver A->B, deliver B->A} (length <= 7 quick / 9 thorough for v3, one less for v2, "
                 "words that deliver from an empty queue pruned). Oracle: reference model of two sent-lists; every non-nil plaintext returned by Receive "
                 "must be the next undelivered text of the peer, no Receive of a genuine in-order message may fail, after a final flush everything was delivered. "
                 "Non-trivial: >=1 DH rotation on each axis (a sender key id >= 2 and a recipient key id >= 2 appeared on the wire) and >=2 data messages in flight in one direction; "
                 "distinct by hash of the script."),
        "assumptions": COMMON_ASSUME + ["empty texts are excluded (indistinguishable from a heartbeat at the API)"],
        "exhaustive_checks": ["C04exhaustive"],
        "tests": [
            {"name": "TestProp_C04_Random", "quick": {"shards": 8, "checks": 25, "timeout": 400},
             "thorough": {"shards": 16, "checks": 250, "timeout": 3000}},
            {"name": "TestProp_C04_Exhaustive", "kind": "plain", "quick": {"shards": 8, "timeout": 400},
             "thorough": {"shards": 16, "timeout": 3000}},
        ],
    },
}
