"""Per-property configuration of the checks: which test functions decide a
property, with what budgets per tier, and the texts that go into the evidence."""

COMMON_ASSUME = [
    "cryptographic primitives (AES, SHA-1/256, HMAC, DSA, DH in the 1536-bit group) are assumed strong; only their correct use is tested",
    "the harness drives real otr3.Conversation objects through the public API; randomness is a tracked deterministic DRBG supplied as Conversation.Rand",
]

PROPS = {
    "C04": {
        "level": "exploration",
        "technique": "property-based testing (rapid, model-based schedules) + bounded-exhaustive schedule enumeration against a reference model of sent/received lists",
        "level_text": "generated and bounded-exhaustive Send/deliver schedules over two FIFO queues on real conversations after a real AKE, judged against a list model; exhaustive for all words up to the stated depth, sampled beyond",
        "level_note": "sampling beyond the enumerated depth; crypto primitives assumed; empty texts excluded",
        "rule": ("rapid-generated schedules of Send/deliver/age-clock/SMP/extra-key steps over two FIFO queues after a real AKE "
                 "(v2/v3, fragment sizes 0 and [H+1,65535], texts: unique token + filler of 5 kinds, 0..5000 bytes), plus the bounded-exhaustive "
                 "enumeration of all words over {send A, send B, deliver A->B, deliver B->A} (length <= 7 quick / 9 thorough for v3, one less for v2, "
                 "words that deliver from an empty queue pruned). Oracle: reference model of two sent-lists; every non-nil plaintext returned by Receive "
                 "must be the next undelivered text of the peer, no Receive of a genuine in-order message may fail, after a final flush everything was delivered. "
                 "Non-trivial: >=1 DH rotation on each axis (a sender key id >= 2 and a recipient key id >= 2 appeared on the wire) and >=2 data messages in flight in one direction; "
                 "distinct by hash of the script."),
        "assumptions": COMMON_ASSUME + ["empty texts are excluded (indistinguishable from a heartbeat at the API)"],
        "exhaustive_checks": ["C04exhaustive", "C04long"],
        "tests": [
            {"name": "TestProp_C04_Words", "quick": {"shards": 8, "checks": 120, "timeout": 600}, "thorough": {"shards": 16, "checks": 4000, "timeout": 3000}},
            {"name": "TestProp_C04_Random", "quick": {"shards": 8, "checks": 25, "timeout": 400},
             "thorough": {"shards": 16, "checks": 250, "timeout": 3000}},
            {"name": "TestProp_C04_Long", "kind": "plain", "quick": {"shards": 4, "timeout": 400}, "thorough": {"shards": 4, "timeout": 3000}},
            {"name": "TestProp_C04_Exhaustive", "kind": "plain", "quick": {"shards": 8, "timeout": 400},
             "thorough": {"shards": 16, "timeout": 3000}},
        ],
    },
    "C02": {
        "level": "exploration",
        "technique": "property-based testing (rapid) with a field-aware mutator/forger built on an independent OTR implementation + exhaustive byte/truncation sweep; oracle: no observable effect of any message altered inside the authenticated part",
        "level_text": "generated attacks (16 mutation/forgery classes, incl. forgeries under MAC keys disclosed on the wire, recomputed keys of retired pairs and of earlier sessions) on the next acceptable data message of real sessions, plus an exhaustive per-offset sweep of one message per prefix class",
        "level_note": "attacks are those the generator expresses; the observer/ref implementation is trusted to compute keys per the specification",
        "rule": ("sessions after a real AKE (v2/v3, fragmenting or not, rotations via ping-pong, SMP/extra-key traffic, re-keying); op 'atk' takes the data message at the head of a queue "
                 "and delivers a variant: bit flip / byte set / truncation / insertion at any offset of header..MAC, field substitutions (flags, key ids, next DH, counter, ciphertext with old MAC, MAC), "
                 "forgeries MAC'd with a key disclosed on the wire so far, with the recomputed key of a retired pair (fresh counter), with a key of an earlier session, with a random key, and changes outside the authenticated part. "
                 "Oracle: a variant differing inside the authenticated part must have no effect (no plaintext, SMP/security event, key callback or data-message reply); outside it: no effect or exactly the genuine text; "
                 "every plaintext returned while encrypted is a text the peer sent in this session (or marked resent / flagged unencrypted). "
                 "Non-trivial: the attack hit the next acceptable message of an encrypted receiver inside the authenticated part or was a forgery. Sweep: every offset x {^01,^80,:=00,:=FF,truncate}."),
        "assumptions": COMMON_ASSUME,
        "exhaustive_checks": ["C02sweep", "C02resent"],
        "tests": [
            {"name": "TestProp_C02_Attack", "quick": {"shards": 8, "checks": 40, "timeout": 400}, "thorough": {"shards": 16, "checks": 500, "timeout": 3000}},
            {"name": "TestProp_C02_Resent", "kind": "plain", "quick": {"shards": 8, "timeout": 600}, "thorough": {"shards": 16, "timeout": 3000}},
            {"name": "TestProp_C02_Sweep", "kind": "plain", "quick": {"shards": 8, "timeout": 400}, "thorough": {"shards": 16, "timeout": 3000}},
        ],
    },
    "C05": {
        "level": "exploration",
        "technique": "property-based testing (rapid): generated histories with replay/duplicate/reorder ops; invariant over the history: each wire message has an observable effect at most once, each text token is delivered at most once",
        "level_text": "generated session histories (traffic, rotations, SMP, extra key, End + re-AKE) with re-delivery of any recorded data message at any later point, incl. fragments and later sessions",
        "level_note": "effects are what the public API shows (plaintext, events, callbacks, replies); silent state changes are judged under C06",
        "rule": ("ops: ping-pong rounds, sends, FIFO and out-of-order deliveries, queue duplication, 'replay' of any recorded data message of the peer (all fragments in order), End+re-AKE ('rekey'), SMP, extra key, clock ageing. "
                 "Oracle: per (message, receiver) at most one delivery has an effect (plaintext, SMP/security event, key callback, non-error reply); per token at most one delivery. "
                 "Non-trivial: a message that already had its effect was re-delivered after >=4 further completed deliveries at that receiver, or in a later session."),
        "exhaustive_checks": ["C05refreplay"],
        "assumptions": COMMON_ASSUME + ["texts re-sent by the library's own resend feature (marked '[resent] ') are judged under C18, not here"],
        "tests": [
            {"name": "TestProp_C05_RefReplay", "kind": "plain", "quick": {"shards": 4, "timeout": 600}, "thorough": {"shards": 4, "timeout": 3000}},
            {"name": "TestProp_C05_Replay", "quick": {"shards": 8, "checks": 40, "timeout": 400}, "thorough": {"shards": 16, "checks": 500, "timeout": 3000}},
        ],
    },
    "C10": {
        "level": "exploration",
        "technique": "differential testing against an independent from-the-specification OTR implementation given all parties' randomness (omniscient observer re-derives every key, MAC, signature, counter and layout), on rapid-generated histories; plus two-way interop with the reference peer",
        "level_text": "every message emitted in generated histories is re-derived byte-for-byte or field-for-field by the independent implementation; messages the reference builds are accepted and read by otr3",
        "level_note": "the reference implementation (harness/ref) is trusted; libotr itself is not available offline",
        "rule": ("generated session histories (both versions, fragment sizes, AKE by either side, re-AKE, End, SMP, extra key, heartbeats via clock ageing); the observer, fed with the DRBG output each party received, "
                 "checks DH-Commit/DH-Key byte-exactly, Reveal-Signature/Signature (commitment, MAC, decryption, DSA over the specified M, key id, public key), data messages (MAC under the derived key, counter strictly increasing per pair and >0, "
                 "flags, key ids, next DH = g^x of a drawn exponent, TLV layout, disclosed-key field multiple of 20), fragments (canonical syntax, k<=n<=65535), query and whitespace tag versions = policy, instance tags, extra symmetric key at both ends. "
                 "Non-trivial: the case contained a complete AKE and a data message with sender key id >= 2 (after a rotation)."),
        "assumptions": COMMON_ASSUME,
        "exhaustive_checks": ["C10fragsweep"],
        "tests": [
            {"name": "TestProp_C10_FragSweep", "kind": "plain", "quick": {"shards": 8, "timeout": 600}, "thorough": {"shards": 8, "timeout": 3000}},
            {"name": "TestProp_C10_Observer", "quick": {"shards": 8, "checks": 60, "timeout": 400}, "thorough": {"shards": 16, "checks": 800, "timeout": 3000}},
            {"name": "TestProp_C10_Interop", "quick": {"shards": 8, "checks": 40, "timeout": 400}, "thorough": {"shards": 16, "checks": 600, "timeout": 3000}},
        ],
    },
}
NOT_APPLICABLE = {}

PROPS["C03"] = {
    "level": "exploration",
    "technique": "property-based testing (rapid) over lifecycle histories under arbitrary policy sets + full 64x64 policy-product enumeration; oracle: wire scanner (verbatim, base64, reassembled fragments, de-armoured) for unique text tokens due protection, with a positive control, plus decipherability by the omniscient observer",
    "level_text": "every ValidMessage returned by any API call in generated lifecycle histories is scanned for every text that was due protection when Send was called; finished/required-encryption sends must emit no form of the text",
    "level_note": "readability is decided for the encodings the library can produce (raw, base64 armour, fragments); secrecy of AES itself is assumed",
    "rule": ("lifecycle scripts (send, deliver, drop, query, End, peer End, error message, SMP, extra key, fragment-size changes, whitespace-tagged input, session establishment) under any of the 64 policy sets per side; "
             "texts = unique token + filler. A token is due protection if at Send time the sender was encrypted, finished (peer disconnected, End not yet called) or had require-encryption. Oracle: token never appears verbatim, inside base64 armour, "
             "in fragment payloads or across reassembled fragments of any output of any call; finished: Send fails with no output; required: only a query; encrypted: the text is the plaintext of a data message under keys derived from the DH secrets; "
             "positive control: every text sent in plaintext state is found by the scanner. Non-trivial: texts sent in >=2 protection situations in one script, one of them finished or require-encryption."),
    "assumptions": COMMON_ASSUME,
    "exhaustive_checks": ["C03peerend", "C03queued", "C03faults", "C03policies"],
    "tests": [
        {"name": "TestProp_C03_PeerEnds", "kind": "plain", "quick": {"shards": 4, "timeout": 600}, "thorough": {"shards": 4, "timeout": 3000}},
        {"name": "TestProp_C03_Queued", "kind": "plain", "quick": {"shards": 4, "timeout": 600}, "thorough": {"shards": 4, "timeout": 3000}},
        {"name": "TestProp_C03_Faults", "kind": "plain", "quick": {"shards": 8, "timeout": 600}, "thorough": {"shards": 16, "timeout": 3000}},
        {"name": "TestProp_C03_Leak", "quick": {"shards": 8, "checks": 120, "timeout": 400}, "thorough": {"shards": 16, "checks": 2500, "timeout": 3000}},
        {"name": "TestProp_C03_Policies", "kind": "plain", "quick": {"shards": 8, "timeout": 400}, "thorough": {"shards": 16, "timeout": 3000}},
    ],
}

PROPS["C09"] = {
    "level": "exploration",
    "technique": "property-based testing (rapid): generated histories judged by an omniscient observer that recomputes the MAC keys of every key pair; invariant at every emitted message (soundness), end-of-history completeness, and a forgery experiment under each disclosed key",
    "level_text": "for every data message emitted in generated histories each disclosed key must belong to a pair outside the discloser's acceptance window at that moment; every receiving key that verified a message and was retired must be disclosed later",
    "level_note": "retirement by a completely new key exchange is counted but not judged for completeness (keys of the old session are wiped)",
    "rule": ("histories of ping-pong rounds, one-directional bursts, out-of-order deliveries, refresh while encrypted, SMP, extra key, heartbeats. Oracle: each disclosed 20-byte key equals a sending/receiving MAC key of some (own id, their id) pair "
             "of the discloser (else violation) and that pair is not in the window {s,s+1}x{r-1,r} read off the disclosing message; each pair under which the party accepted a message with an observable effect and which a later message of the party shows retired "
             "has its receiving key disclosed at or after retirement; messages forged under disclosed keys are rejected by the discloser. Non-trivial: >=1 disclosure and a rotation on each axis."),
    "assumptions": COMMON_ASSUME,
    "exhaustive_checks": ["C09damaged"],
    "tests": [
        {"name": "TestProp_C09_Damaged", "kind": "plain", "quick": {"shards": 8, "timeout": 600}, "thorough": {"shards": 8, "timeout": 3000}},
        {"name": "TestProp_C09_Disclosure", "quick": {"shards": 8, "checks": 30, "timeout": 400}, "thorough": {"shards": 16, "checks": 500, "timeout": 3000}},
    ],
}

PROPS["C18"] = {
    "level": "exploration",
    "technique": "property-based testing (rapid, stateful lifecycle scripts under arbitrary policy sets) with a lifecycle automaton + transmission-multiset model fed by the omniscient observer",
    "level_text": "generated lifecycle histories (start/complete/abandon AKE, Send, End, peer End, error messages, refresh, peer restart, loss) judged after every API call for state/event consistency and for what is transmitted how often",
    "level_note": "a refresh completing on the Reveal-Signature sender's side is recognised from the observer-validated Signature it receives",
    "rule": ("ops: send, deliver, drop, query, session establishment, End, peer End, injected ?OTR Error, SMP, extra key, clock ageing, fragment size, peer restart (fresh conversation object), under any policy sets. Oracle after every call: "
             "plaintext->encrypted only in a Receive of a final AKE message the observer validates, with exactly GoneSecure; encrypted->other only in End() or on an observer-decrypted disconnect TLV, with exactly GoneInsecure; StillSecure exactly on a refresh; "
             "no other security events; Send refused without output while finished; clear text output in plaintext state without require-encryption. Transmissions (observer-decrypted): each text verbatim at most once and in Send order; "
             "'[resent] ' only for the most recent text, at most once, only after an ?OTR Error received while encrypted, never for non-text messages. Non-trivial: >=2 sessions for one party or a resend occurred."),
    "assumptions": COMMON_ASSUME,
    "exhaustive_checks": ["C18queued", "C18ended", "C18peerend", "C18faults"],
    "tests": [
        {"name": "TestProp_C18_Queued", "kind": "plain", "quick": {"shards": 4, "timeout": 600}, "thorough": {"shards": 4, "timeout": 3000}},
        {"name": "TestProp_C18_Ended", "kind": "plain", "quick": {"shards": 4, "timeout": 600}, "thorough": {"shards": 4, "timeout": 3000}},
        {"name": "TestProp_C18_PeerEnds", "kind": "plain", "quick": {"shards": 4, "timeout": 600}, "thorough": {"shards": 4, "timeout": 3000}},
        {"name": "TestProp_C18_Faults", "kind": "plain", "quick": {"shards": 8, "timeout": 600}, "thorough": {"shards": 16, "timeout": 3000}},
        {"name": "TestProp_C18_Lifecycle", "quick": {"shards": 8, "checks": 150, "timeout": 400}, "thorough": {"shards": 16, "checks": 3000, "timeout": 3000}},
    ],
}

PROPS["C10"]["rule"] += (" Interop check: scripts of sends both ways, partial deliveries, SMP started by either side with equal/different secrets (incl. empty and 1200-byte binary), "
                         "extra-key requests both ways, unknown and padding TLVs from the reference, reference-side fragmentation, all four role/version combinations; oracle: same SSID, complementary highlight, true fingerprints, "
                         "every text delivered unchanged in order both ways, neither side ever rejects the other's genuine message, SMP verdicts agree with secret equality on both sides, extra keys equal.")

PROPS["C11"] = {
    "level": "exploration",
    "technique": "property-based testing (rapid): generated SMP runs between two real conversations with secret pairs built to be equal or to differ minimally, and a man-in-the-middle relay world built from the independent reference implementation; oracle: success iff byte-equal secrets / never under relay",
    "level_text": "SMP runs (1-3 per session, either initiator, with/without question, ordinary traffic and DH rotations before start, before the answer and while message 3/4 are in flight) judged by the events both sides raise; relay of SMP payloads between two separately keyed sessions must never succeed",
    "level_note": "secrets up to 64 KB; relay attacker forwards SMP TLVs verbatim (it cannot do better without the session secrets)",
    "rule": ("secret pairs derived from 5 bases (text, empty, 1 byte, up to 64 KB binary, binary with NUL/0xff) and 6 classes (same, last bit, trailing NUL, one byte shorter, first bit, leading space); "
             "oracle equal: Success on both sides and no failure/abort/cheated/error; different: no Success anywhere, Failure at the responder, Failure or Abort at the initiator; question arrives verbatim. "
             "Relay: otr3 A and B each in its own session with a reference-party half of the relay (own key), SMP TLVs forwarded verbatim both ways, both victims answer; no Success ever, also with equal secrets. "
             "Non-trivial: rotations happened around the run or several runs back to back; relay: the run reached the final comparison/verification."),
    "assumptions": COMMON_ASSUME,
    "exhaustive_checks": ["C11short"],
    "tests": [
        {"name": "TestProp_C11_ShortValues", "kind": "plain", "quick": {"shards": 13, "timeout": 900}, "thorough": {"shards": 16, "timeout": 3000}},
        {"name": "TestProp_C11_Session", "quick": {"shards": 8, "checks": 12, "timeout": 400}, "thorough": {"shards": 16, "checks": 200, "timeout": 3000}},
        {"name": "TestProp_C11_Relay", "quick": {"shards": 8, "checks": 12, "timeout": 400}, "thorough": {"shards": 16, "checks": 200, "timeout": 3000}},
    ],
}

PROPS["C12"] = {
    "level": "exploration",
    "technique": "differential property-based testing (rapid + exhaustive field x boundary-value enumeration): an authenticated reference peer sends deviant SMP messages; a shadow verifier that applies the specification's checks with the victim's own randomness decides whether success may be reported",
    "level_text": "every field of SMP messages 1-4 replaced by boundary values, miscounts/truncations, missing question terminator, honest-but-degenerate provers (exponent 0 or q), a re-sealed message with Qb = 0, out-of-sequence messages and user calls in every state; no success unless the shadow accepts and secrets match, no crash, and a fresh honest run succeeds afterwards",
    "level_note": "open known finding C12/v2-no-group-check (OTRv2 skips group checks, pinned by unit tests): violations of exactly that class under v2 are counted as excluded, its witness is re-run on every check",
    "rule": ("the victim is a real otr3 conversation in a real session with the reference party; steps: victim start/answer/abort, reference sends SMP1..4 or abort, each honest or with one deviation: field i := {0,1,p-1,p,p+1,q,random,+1,-1}, "
             "element count +1/-1/2^32-1, truncated value, empty value, question without NUL, prover exponents a2/a3/b2/b3 forced to 0 or q, Pb=1 & Qb=0|p with recomputed proof. The shadow (reference SMP arithmetic fed with the victim's recorded random exponents, "
             "self-checked by reproducing the victim's own SMP1/SMP2 byte-exactly) accepts or rejects each message per the specification including group membership; Success may be raised only when it accepts and the secrets are equal. "
             "Afterwards: abort, then a fresh honest run each way must succeed. Non-trivial: a deviant message (MAC valid) reached the SMP automaton. "
             "C12blocks/C12longblocks: messages that deviate by the company they keep - every block of one or two TLVs out of {disconnect, padding, unknown, SMP1, SMP1Q, SMP2, SMP3, SMP4, abort} (well-formed messages of a run between two reference provers) "
             "in each honest pre-state (idle, asked, answered, started), both versions, and generated blocks of 3-6 TLVs; no success, no crash, and a fresh honest run each way succeeds afterwards, in the next session when the block ended this one."),
    "assumptions": COMMON_ASSUME,
    "exhaustive_checks": ["C12sync", "C12degenerate", "C12structure", "C12fields", "C12usercalls", "C12blocks"],
    "tests": [
        {"name": "TestProp_C12_Sync", "kind": "plain", "quick": {"shards": 16, "timeout": 900}, "thorough": {"shards": 16, "timeout": 3000}},
        {"name": "TestProp_C12_Blocks", "kind": "plain", "quick": {"shards": 8, "timeout": 600}, "thorough": {"shards": 16, "timeout": 3000}},
        {"name": "TestProp_C12_LongBlocks", "quick": {"shards": 2, "checks": 40, "timeout": 600}, "thorough": {"shards": 8, "checks": 1500, "timeout": 3000}},
        {"name": "TestProp_C12_Deviant", "quick": {"shards": 8, "checks": 10, "timeout": 500}, "thorough": {"shards": 16, "checks": 150, "timeout": 3000}},
        {"name": "TestProp_C12_Fields", "kind": "plain", "quick": {"shards": 8, "timeout": 500}, "thorough": {"shards": 16, "timeout": 3000}},
        {"name": "TestProp_C12_Structure", "kind": "plain", "quick": {"shards": 8, "timeout": 500}, "thorough": {"shards": 16, "timeout": 3000}},
        {"name": "TestProp_C12_Degenerate", "kind": "plain", "quick": {"shards": 4, "timeout": 500}, "thorough": {"shards": 4, "timeout": 3000}},
        {"name": "TestProp_C12_UserCalls", "kind": "plain", "quick": {"shards": 4, "timeout": 500}, "thorough": {"shards": 4, "timeout": 3000}},
        {"name": "TestKnown_C12_V2GroupCheck", "witness_only": True},
    ],
}

PROPS["C01"] = {
    "level": "exploration",
    "technique": "property-based testing (rapid): Dolev-Yao style attack scripts against two real conversations (mutation, duplication, reordering, cross-session injection, an impersonator built on the independent reference implementation) + exhaustive byte/truncation sweep of a handshake; omniscient-observer oracle evaluated after every step",
    "level_text": "after every step of generated attack scripts each encrypted conversation's SSID must derive from an in-range DH value drawn in this run by a live party and the reported peer key must be the key that party signs with; exhaustive sweep of all four AKE messages, v2 and v3",
    "level_note": "attackers are those the generator can express; cryptanalysis is out of scope; the adversary's DH values are learnt by the oracle from the reference party's own randomness",
    "rule": ("ops: start by either/both sides, FIFO/out-of-order delivery, duplicate, drop, 12 kinds of mutation of an in-flight AKE message (bit/byte/truncate/extend, version/type, tags, g^y := {0,1,p-1,p,p+1,2,p-2}, length prefixes, MAC, inside the encrypted signature, splice of the recorded session's message), "
             "injection of a recorded earlier session of the same long-term keys, attacker M running its own exchange against either victim in either role, to completion or abandoned, advertising key K_A/K_B/K_M while signing with K_M, also against already encrypted victims. "
             "Oracle after every op for every encrypted party P: SSID == h2(0, Y^e) for an exponent e P drew and Y = g^e' of a live party X of this run (degenerate values, recorded-session values, adversary-chosen values or no match: violation); GetTheirKey fingerprint == key X signs with; "
             "A and B sharing an SSID highlight complementary halves and can read each other's probe text at the end. Non-trivial: an attacker op touched an AKE message that was delivered and a Reveal-Signature/Signature was processed. "
             "Sweep: honest handshake where message k is preceded by a copy with one byte ^01/^80/:=00/:=FF or truncated at every offset. "
             "Degenerate attacker (enumerated and sampled): an adversary without any exponent runs the exchange in either role with DH value 1, p-1, 0 or p+1, guessing the shared secret 1/p-1/0, optionally sending an in-range value after the refused one, against plaintext and encrypted victims."),
    "assumptions": COMMON_ASSUME,
    "exhaustive_checks": ["C01stray", "C01restart", "C01faults", "C01sweep", "C01degenerate"],
    "tests": [
        {"name": "TestProp_C01_Stray", "kind": "plain", "quick": {"shards": 8, "timeout": 600}, "thorough": {"shards": 8, "timeout": 3000}},
        {"name": "TestProp_C01_Restart", "kind": "plain", "quick": {"shards": 4, "timeout": 600}, "thorough": {"shards": 4, "timeout": 3000}},
        {"name": "TestProp_C01_Faults", "kind": "plain", "quick": {"shards": 8, "timeout": 600}, "thorough": {"shards": 8, "timeout": 3000}},
        {"name": "TestProp_C01_Attack", "quick": {"shards": 8, "checks": 100, "timeout": 500}, "thorough": {"shards": 16, "checks": 2500, "timeout": 3000}},
        {"name": "TestProp_C01_Sweep", "kind": "plain", "quick": {"shards": 8, "timeout": 500}, "thorough": {"shards": 16, "timeout": 3000}},
        {"name": "TestProp_C01_Degenerate", "kind": "plain", "quick": {"shards": 4, "timeout": 500}, "thorough": {"shards": 8, "timeout": 3000}},
    ],
}

PROPS["C15"] = {
    "level": "exploration",
    "technique": "property-based testing (rapid) + exhaustive sender x receiver tag-class matrix over every message kind, with an authenticated reference peer (valid MACs under arbitrary tags), a second client instance, and forced outputs of the randomness source for the own tag; differential check of the public tag-extraction helper against what the reference wrote",
    "level_text": "tag classes {0, 1..0xff, own, peer's, other valid, 0x100, 0xffffffff} on key-exchange messages, data messages with valid MAC and fragments, before and after binding; oracle on binding, isolation (no plaintext/reply/rebinding, genuine traffic unaffected) and ExtractInstanceTags",
    "level_note": "binding on a well-formed message of another instance that arrives first is allowed by the statement and only counted",
    "rule": ("steps: hostile AKE-shaped message of another instance with chosen tags, genuine handshake (either starter), genuine text, victim send, authenticated data message with other tags, plaintext-payload fragments with chosen tags, negative inputs for the helper. "
             "Oracle: own tag >= 0x100 whatever 4-byte values the randomness source offers first; a malformed-tag message never changes GetTheirInstanceTag nor is acted on, and a genuine handshake afterwards succeeds; once bound, foreign sender / foreign non-zero receiver: no plaintext, no reply, no rebinding, next genuine messages both ways still work; "
             "messages with acceptable tags (peer's tag, receiver 0 or own) are delivered; ExtractInstanceTags returns exactly the (receiver, sender) tags written, ok=false for inputs without tags, never panics. "
             "Non-trivial: a hostile-tag message preceded the genuine handshake or a foreign message arrived in encrypted state."),
    "assumptions": COMMON_ASSUME,
    "exhaustive_checks": ["C15matrix"],
    "tests": [
        {"name": "TestProp_C15_Tags", "quick": {"shards": 8, "checks": 120, "timeout": 500}, "thorough": {"shards": 16, "checks": 3000, "timeout": 3000}},
        {"name": "TestProp_C15_Matrix", "kind": "plain", "quick": {"shards": 8, "timeout": 500}, "thorough": {"shards": 16, "timeout": 3000}},
    ],
}

PROPS["C13"] = {
    "level": "exploration",
    "technique": "property-based testing / structure-aware fuzzing (rapid generators: key-file grammar, wire encodings with hostile length and count prefixes, mutated genuine traffic in ten conversation states, authenticated-but-malicious payloads from the reference peer) + exhaustive fault injection at every read index of the randomness source; oracle: no panic, watchdog, allocation bound, usability probe",
    "level_text": "public parsers, Receive in every conversation state and every index k at which Conversation.Rand fails are driven with generated hostile inputs; each call is guarded (panic), timed (15 s watchdog), measured (TotalAlloc growth <= 16 MiB + 4096 x input length, worker under ulimit -v) and followed by a probe that the conversation still works",
    "level_note": "a worker that dies (fatal stack overflow / out of memory) leaves a breadcrumb with its input, which the driver turns into the replay file; CPU-heavy but terminating work (large DSA parameters) is kept out of the domain",
    "rule": ("parsers: ExtractInstanceTags, ExtractMPIs/MPI/Data/Short/Word/Long/Time/Byte/FixedData, ParsePublicKey/PrivateKey(+Fingerprint/Verify/Serialize), DSAPrivateKey.Import, ImportKeys, sexp.Read/ReadList/ReadString/ReadBigNum/ReadSymbol on grammar-generated key files (valid, truncated, token insertions/deletions, token soup, every prefix) and wire bytes (huge lengths/counts, truncated and bit-flipped keys). "
             "Receive: states {fresh, query sent, awaiting D-H key, awaiting reveal-sig, awaiting sig, encrypted, encrypted after rotations, finished, mid fragment stream, SMP pending} x policy sets x with/without long-term key x 12 input kinds (raw bytes, garbage behind every ?OTR prefix, truncated/bit-flipped genuine messages, 4-byte fields set to huge values at every offset, nested/illegal fragments, 60 KB first fragment announcing 65535 pieces, query/whitespace/base64 edge cases, 70 KB garbage). "
             "Authenticated payloads: TLV length lies, truncated TLV header, SMP MPI count 2^32-1, question without NUL, extra-key TLV < 4 bytes, MPI longer than its TLV, thousands of empty TLVs, 65535-byte unknown TLV, lone NUL, SMP with p everywhere. "
             "Faults: two scenarios (AKE + messages; rotations with an overtaking message, SMP, extra key, End) x both versions x each party x every read index x {error, short read, EOF}. Non-trivial: input recognised as an OTR message / parser got past its first field / the failing read was reached."),
    "assumptions": COMMON_ASSUME + ["the watchdog (15 s for calls that normally take micro- to milliseconds) is the only wall-clock oracle"],
    "exhaustive_checks": ["C13strayake", "C13truncations", "C13truncrecv", "C13faults", "C13oddkeys"],
    "tests": [
        {"name": "TestProp_C13_StrayAKE", "kind": "plain", "crumb_is_violation": True, "ulimit_v": 8388608, "quick": {"shards": 8, "timeout": 600}, "thorough": {"shards": 8, "timeout": 3000}},
        {"name": "TestProp_C13_Truncations", "kind": "plain", "crumb_is_violation": True, "ulimit_v": 8388608, "quick": {"shards": 8, "timeout": 600}, "thorough": {"shards": 8, "timeout": 3000}},
        {"name": "TestProp_C13_Parsers", "crumb_is_violation": True, "ulimit_v": 8388608, "quick": {"shards": 4, "checks": 1500, "timeout": 500}, "thorough": {"shards": 8, "checks": 40000, "timeout": 3000}},
        {"name": "TestProp_C13_Receive", "crumb_is_violation": True, "ulimit_v": 8388608, "quick": {"shards": 6, "checks": 150, "timeout": 500}, "thorough": {"shards": 16, "checks": 3000, "timeout": 3000}},
        {"name": "TestProp_C13_Auth", "crumb_is_violation": True, "ulimit_v": 8388608, "quick": {"shards": 3, "checks": 100, "timeout": 500}, "thorough": {"shards": 8, "checks": 2500, "timeout": 3000}},
        {"name": "TestProp_C13_Faults", "kind": "plain", "crumb_is_violation": True, "quick": {"shards": 8, "timeout": 900}, "thorough": {"shards": 8, "timeout": 3000}},
        {"name": "TestProp_C13_OddKeys", "kind": "plain", "crumb_is_violation": True, "quick": {"shards": 2, "timeout": 500}, "thorough": {"shards": 4, "timeout": 3000}},
        # native coverage-guided fuzzing, thorough tier only (cannot be seeded; a crasher file is the reproduction)
        {"name": "FuzzParsers", "kind": "fuzz", "quick": {"skip": True}, "thorough": {"shards": 1, "fuzztime": 90, "timeout": 400}},
        {"name": "FuzzReceive", "kind": "fuzz", "quick": {"skip": True}, "thorough": {"shards": 1, "fuzztime": 90, "timeout": 400}},
    ],
}

PROPS["C14"] = {
    "level": "exploration",
    "technique": "property-based testing (rapid) + exhaustive fragment-size sweep: round trip through an independent reassembler and decoder on the sending side; model-based testing of arrival sequences against the specification's reassembly rules on the receiving side",
    "level_text": "sending: every piece <= size, pieces reassemble (independent implementation) to the data message carrying the text, the peer returns the text exactly once on the last piece, for fragment sizes over [H+1, 65535] and encodings up to ~135 KB; receiving: generated arrival sequences judged event by event against a reference reassembler",
    "level_note": "fragment sizes that leave no payload byte are outside the statement (C13 covers that they do not crash); where the specification is silent (whole message between fragments, unparsable fragment) the next fragment is a restart so that keep and forget agree",
    "rule": ("send: v2/v3, size classes (H+1..H+9, powers of two +-1, 65534/65535, uniform), text lengths 0..100000 (classes incl. 48000..52000 where the encoding crosses 65535), filler of 5 kinds, 0-2 rotations before; cases needing >65535 pieces discarded (counted). "
             "Sweep: sizes H+1..H+64 x lengths straddling the 256-byte padding boundary (every residue of encoding length modulo payload). "
             "Receive: pieces of plaintext payloads (handed back as plaintext on completion, so processing is observable) and of genuine data messages of an authenticated reference peer; events next/restart/wrong total/duplicate/skip/index 0/k>n/foreign instance/unparsable/whole plaintext/whole data message; both header syntaxes. "
             "Oracle: Receive returns a plaintext exactly when the model completes and it equals the model's buffer (a data message completed twice is refused as a replay). Non-trivial: send >=3 pieces; receive: a fragment event after a completion or an out-of-order event mid-stream."),
    "assumptions": COMMON_ASSUME + ["parties hold a long-term key (a key-less conversation cannot commit to the fragment's version)"],
    "exhaustive_checks": ["C14fragake", "C14unbound", "C14sizes"],
    "tests": [
        {"name": "TestProp_C14_FragAKE", "kind": "plain", "quick": {"shards": 4, "timeout": 600}, "thorough": {"shards": 4, "timeout": 3000}},
        {"name": "TestProp_C14_Unbound", "kind": "plain", "quick": {"shards": 2, "timeout": 600}, "thorough": {"shards": 2, "timeout": 3000}},
        {"name": "TestProp_C14_Send", "quick": {"shards": 8, "checks": 40, "timeout": 500}, "thorough": {"shards": 16, "checks": 700, "timeout": 3000}},
        {"name": "TestProp_C14_Sizes", "kind": "plain", "quick": {"shards": 4, "timeout": 500}, "thorough": {"shards": 8, "timeout": 3000}},
        {"name": "TestProp_C14_Recv", "quick": {"shards": 4, "checks": 250, "timeout": 500}, "thorough": {"shards": 8, "checks": 6000, "timeout": 3000}},
    ],
}

PROPS["C17"] = {
    "level": "exploration",
    "technique": "property-based testing (rapid) of round-trip and parse-idempotence laws, run inside the package (injected with go test -overlay, /repo untouched) so that unexported (de)serialisers are reached; plus public Append*/Extract*, key wire form, fingerprint input and libotr key-file round trips",
    "level_text": "parse(serialize(v)) == v for every protocol structure and key with generated field lengths (empty, maximal TLV value 65535, leading-zero byte fields, zero and boundary integers) and parse(serialize(parse(b))) == parse(b) for arbitrary accepted bytes; emitted MPIs minimal, emitted lengths equal contents",
    "level_note": "couples to unexported names: a rename makes the check inconclusive (build failure -> exit 2), never a false violation",
    "rule": ("structures: dhCommit, dhKey, revealSig, sig (v2/v3), dataMsg (flag, ids, y, counter, ciphertext, MAC, 0-4 disclosed keys; re-serialisation byte-equal), plainDataMsg (NUL-free text, 0-4 TLVs incl. empty and 65535-byte values), tlv, SMP 1/1Q/2/3/4 <-> TLV (count field, question), Append*/Extract* chains; "
             "keys: pool keys and arbitrary parameter values through Serialize/Parse/ParsePrivateKey/ParsePublicKey, fingerprint == SHA-1 of the encoding without type field, key files with 0-3 accounts whose names use any character a quoted string can hold (backslash, tab, parentheses, #, ;, non-ASCII, empty) and symbol protocols; "
             "idempotence: random bytes, valid encodings, single-byte mutations, trailing bytes / zero first content byte, for dhCommit, dhKey, dataMsg, tlv, plainDataMsg, public key, MPI lists, SMP4. Non-trivial: a value with an empty/boundary field, a special account name, or an input the parser accepted."),
    "assumptions": ["in-package test compiled with the repository's own go.mod plus rapid; the DSA key pool of the harness is read from VERIF_KEYS"],
    "tests": [
        {"name": "TestProp_C17_Structs", "build": "inpkg", "quick": {"shards": 4, "checks": 1500, "timeout": 500}, "thorough": {"shards": 8, "checks": 40000, "timeout": 3000}},
        {"name": "TestProp_C17_Keys", "build": "inpkg", "quick": {"shards": 2, "checks": 300, "timeout": 500}, "thorough": {"shards": 4, "checks": 6000, "timeout": 3000}},
        {"name": "TestProp_C17_Idempotent", "build": "inpkg", "quick": {"shards": 4, "checks": 2500, "timeout": 500}, "thorough": {"shards": 8, "checks": 60000, "timeout": 3000}},
    ],
}

PROPS["C16"] = {
    "level": "exploration",
    "technique": "property-based testing (rapid) + exhaustive 64x64 policy-product enumeration against a table model of version negotiation (independent query/tag parser), byte-exact pass-through oracles",
    "level_text": "fresh conversations under every pair of policy sets and every offer form (peer-built query, crafted version lists, whitespace tags with any version groups at any text position, first D-H Commit of v2/v3); version = max(offered, allowed by responder); forbidden versions leave no trace; pass-through byte-exact",
    "level_note": "only first negotiations are judged (a committed version is sticky by design); malformed queries without the closing '?' are outside the domain (the specification does not say how to read them)",
    "rule": ("forms: 0 query built by A's policy delivered to B and the exchange run to completion (every emitted message must carry the negotiated version, both encrypted iff a common version exists); 1 crafted queries (?OTR?, ?OTRv..?, ?OTR?v..?, v1, unknown digits, duplicates, trailing text); "
             "2 text without markers with base tag + groups {v1,v2,v3,unknown}* inserted at any offset: returned text byte-exact with the tag removed, D-H Commit of the best version iff whitespace-start policy; 3 first D-H Commit of v2/v3 from the reference: D-H Key of that version iff allowed, else no reply and a later allowed offer still works; "
             "4 no version allowed: Send and Receive return any input (incl. OTR-looking) byte-for-byte; 5 plain text returned byte-exact without reply. Non-trivial: policies differ between the sides or the offer contains a version the receiver forbids."),
    "assumptions": COMMON_ASSUME,
    "exhaustive_checks": ["C16policies"],
    "tests": [
        {"name": "TestProp_C16_Negotiate", "quick": {"shards": 6, "checks": 500, "timeout": 500}, "thorough": {"shards": 12, "checks": 15000, "timeout": 3000}},
        {"name": "TestProp_C16_Policies", "kind": "plain", "quick": {"shards": 6, "timeout": 500}, "thorough": {"shards": 8, "timeout": 3000}},
    ],
}

PROPS["C07"] = {
    "level": "exploration",
    "technique": "bounded-exhaustive enumeration of every interleaving of two FIFO queues (depth-first by re-execution) per start pattern, trigger kind and version pair, plus rapid-sampled schedules; oracle: bounded termination with both sides encrypted in one common session and a probe text each way",
    "level_text": "for every start pattern {A, B, both} x trigger {query, whitespace tag, error-triggered restart, Send under required encryption, refresh while encrypted} x version pairs sharing a version, all delivery interleavings until quiescence are executed on real conversations",
    "level_note": "liveness is decided as bounded termination on finite schedules (nothing in the library retries on timers); open known finding C07/dhcommit-collision: schedules in which D-H Commits cross are counted as excluded unless they complete, its witness is re-run on every check",
    "rule": ("a case = (versions of A, versions of B, trigger, pre-state {fresh, both encrypted with aged clocks, B restarted and lost its session, A just called End(), B just called End()}, who starts, choice vector saying which queue delivers whenever both are non-empty); starts that are not starts (a Send from an encrypted or finished conversation) are discarded and counted; quick enumerates all interleavings for the version pairs (3,3),(2,2),(23,23) up to 60 per start pattern, thorough all 7 pairs up to 4000; "
             "oracle: quiescence within 200 deliveries, both encrypted, same SSID, the text whose Send started the exchange is delivered, a probe text each way arrives. Non-trivial: both directions had messages in flight at the same moment (a choice was made)."),
    "assumptions": COMMON_ASSUME + ["clocks are aged by three minutes before a refresh so that the 'ignore a repeated query within a minute' window does not apply"],
    "exhaustive_checks": ["C07schedules"],
    "tests": [
        {"name": "TestProp_C07_Schedules", "kind": "plain", "quick": {"shards": 8, "timeout": 500}, "thorough": {"shards": 16, "timeout": 3000}},
        {"name": "TestProp_C07_Random", "quick": {"shards": 4, "checks": 100, "timeout": 500}, "thorough": {"shards": 8, "checks": 2000, "timeout": 3000}},
        {"name": "TestKnown_C07_Collision", "witness_only": True},
    ],
}

PROPS["C06"] = {
    "level": "exploration",
    "technique": "metamorphic (twin-world) property-based testing with rapid + enumeration over all handshake points: the same generated history is run twice with identical seeds, one run additionally receives one rejected input derived from genuine traffic without the session keys; every later API call must behave identically",
    "level_text": "for generated histories and a rejected input injected at any op boundary (before/during/after AKE, across rotations, during SMP) both worlds are compared call by call: plaintexts, errors, SMP/security/message events, encryption state, peer fingerprint, instance tags and for every emitted message its kind, version, flags, key ids and counter",
    "level_note": "wire bytes, SSID values and extra-key bytes are not compared across the worlds (a rejected key-exchange message may consume randomness); the optional ?OTR Error reply to the rejected input is dropped; inputs that turn out not to be rejected are discarded and counted",
    "rule": ("histories: ping-pong rounds, sends, FIFO/out-of-order deliveries, flush, SMP start/answer, extra key, clock ageing by 2 minutes, refresh by query, End; rejected input kinds for data messages: bit flip in the authenticated part, counter raised (+1, 2^60, +1000, max), sender/recipient key id raised, MAC damaged, truncated, tags invalid/foreign, other version, next-DH replaced, replay; "
             "for key-exchange messages: bit flip, truncation, tags, version, replay, re-typed; source = the message in flight towards the receiver or an earlier one of the peer. The input must qualify as rejected (no plaintext, no event-worthy effect, nothing to send but an error reply). "
             "Enumeration: handshake delivered up to k=0..5 messages x receiver x 6 kinds x source x truncation points, then the rest of the handshake and traffic. Non-trivial: receiver was encrypted, mid-SMP or mid-key-exchange and the continuation delivered >=2 texts each way."),
    "assumptions": COMMON_ASSUME,
    "exhaustive_checks": ["C06midsmp", "C06akelossy", "C06akestates", "C06fresh", "C06firstuse"],
    "tests": [
        {"name": "TestProp_C06_MidSMP", "kind": "plain", "quick": {"shards": 16, "timeout": 900}, "thorough": {"shards": 16, "timeout": 3000}},
        {"name": "TestProp_C06_AKELossy", "kind": "plain", "quick": {"shards": 16, "timeout": 900}, "thorough": {"shards": 16, "timeout": 3000}},
        {"name": "TestProp_C06_FirstUse", "kind": "plain", "quick": {"shards": 8, "timeout": 600}, "thorough": {"shards": 8, "timeout": 3000}},
        {"name": "TestProp_C06_Fresh", "kind": "plain", "quick": {"shards": 8, "timeout": 600}, "thorough": {"shards": 8, "timeout": 3000}},
        {"name": "TestProp_C06_Twin", "quick": {"shards": 8, "checks": 60, "timeout": 600}, "thorough": {"shards": 16, "checks": 1200, "timeout": 3000}},
        {"name": "TestProp_C06_AKEStates", "kind": "plain", "quick": {"shards": 8, "timeout": 600}, "thorough": {"shards": 16, "timeout": 3000}},
    ],
}

PROPS["C08"] = {
    "level": "exploration",
    "exhaustive_checks": ["C08faults", "C08peerend"],
    "technique": "property-based testing (rapid, lifecycle scripts) with an invariant over the reachable object graph: a reflect/unsafe walker (no otr3 identifiers) searches everything reachable from the conversation, to slice capacity and big-integer limbs, for every secret the tracked randomness source ever handed out and for every text token; retired secrets are additionally checked for in-place erasure through retained aliases",
    "level_text": "after every API call of generated histories (rotations, re-AKE, abandoned AKE, SMP, End, peer disconnect, queued texts): at most current+previous DH exponent (+1 during a key exchange) reachable, nothing of a finished/abandoned exchange, nothing after End/disconnect, no sent text except queued ones and the most recent, and every buffer that ever held a now-unreachable secret has been zeroed",
    "level_note": "copies on goroutine stacks, in the garbage collector or inside crypto/constbn internals are invisible; the AKE value r is public once revealed, so only the place it was drawn into is judged; SMP exponents are judged for reachability after End/disconnect only; under v2 SMP is left out of the scripts (its 16-byte exponents cannot be told from r)",
    "rule": ("ops: ping-pong rounds, sends (also under require-encryption, which queues), deliveries, drops, queries at any moment (abandons the exchange in progress), session establishment, End, peer End, SMP start/answer/abort, extra key, clock ageing. "
             "Secrets = every 40-byte (DH exponent), 16-byte (r, v3) and 192-byte (SMP) draw; the harness derives from the API-visible events which exponent belongs to the exchange in progress and which two are the session's current/previous keys. "
             "Non-trivial: >=2 rotations of a party's key and at least one abandoned exchange, End or peer disconnect."),
    "assumptions": COMMON_ASSUME,
    "tests": [
        {"name": "TestProp_C08_Secrets", "quick": {"shards": 8, "checks": 60, "timeout": 600}, "thorough": {"shards": 16, "checks": 1500, "timeout": 3000}},
        {"name": "TestProp_C08_Faults", "kind": "plain", "quick": {"shards": 4, "timeout": 600}, "thorough": {"shards": 4, "timeout": 3000}},
        {"name": "TestProp_C08_PeerEnds", "kind": "plain", "quick": {"shards": 4, "timeout": 600}, "thorough": {"shards": 4, "timeout": 3000}},
    ],
}

PROPS["C19"] = {
    "level": "exploration",
    "technique": "property-based testing (rapid) + enumeration of the named traffic patterns: a generated cycle of operations is repeated n, 2n, 4n times; metamorphic oracle on history length: the size of everything reachable from the conversation (object-graph walker, slices to capacity) and the longest outgoing message must not grow between n and 4n",
    "level_text": "ping-pong, one-directional bursts, floods of forged data messages with varying key ids/counters, garbage, rejected key-exchange messages, replays of old messages, repeated re-keying, SMP runs and heartbeats, each alone and in generated combinations, with n up to 10 (quick) / 64 (thorough)",
    "level_note": "retained size is what the walker can reach (it excludes the long-term keys and harness objects); a tolerance of 1 KiB covers slice rounding and 160 bytes cover the four MAC keys that may legitimately be disclosed",
    "rule": ("cycle = 1..4 ops from {ping-pong, burst of 1-4 texts one way, forged copy of the peer's latest data message with sender/recipient key id +0..4 and a raised counter, garbage behind ?OTR:AAMD, bit-flipped key-exchange message, re-key by query, complete SMP run, clock ageing, replay of three old data messages}; texts have a fixed length. "
             "Oracle: size after cycles 2n and 4n <= largest size seen in cycles 1..n + 1024 bytes, for both parties; longest message emitted in cycles (2n,4n] <= longest in [1,n] + 160 bytes. Non-trivial: the cycle contains an accepted message each way or a rejected input."),
    "assumptions": COMMON_ASSUME + ["texts queued before a session exists and half-received fragment streams are not generated inside cycles (the statement allows them to grow)"],
    "exhaustive_checks": ["C19patterns", "C19ref"],
    "tests": [
        {"name": "TestProp_C19_Cycles", "quick": {"shards": 8, "checks": 6, "timeout": 600}, "thorough": {"shards": 16, "checks": 60, "timeout": 3000}},
        {"name": "TestProp_C19_Patterns", "kind": "plain", "quick": {"shards": 8, "timeout": 600}, "thorough": {"shards": 16, "timeout": 3000}},
        {"name": "TestProp_C19_Ref", "kind": "plain", "quick": {"shards": 8, "timeout": 600}, "thorough": {"shards": 16, "timeout": 3000}},
    ],
}

PROPS["C20"] = {
    "level": "exploration",
    "technique": "differential property-based testing (rapid): generated independent conversation pairs are run alone and then all at once on separate goroutines (GOMAXPROCS 16, generated yield points); every pair's complete transcript must be byte-identical; a second binary built with the Go race detector runs the same property, and a property over pairs that use the library's default randomness source, and any reported data race is a violation",
    "level_text": "4-16 independent scripted pairs (handshake via whitespace tag or query under different version policies, traffic, fragmentation, error messages, SMP, extra key, key serialisation and fingerprints, teardown) executed solo and concurrently, two concurrent rounds per case; digest over every call's input, plaintext, error, events and output bytes",
    "level_note": "interleavings are the Go scheduler's, not enumerated; the race detector reports conflicting unsynchronised accesses that occur during the run; the race build is ~15x slower and runs fewer, smaller cases",
    "rule": ("each pair is a deterministic lifecycle script with its own seeds and keys; pairs use different version policies (v2, v3, both) and whitespace-tag policies so that shared scratch buffers would produce visibly wrong output; "
             "oracle: solo run twice gives the same digest (harness self-check), every concurrent digest equals the solo digest, no DATA RACE report in the race build. "
             "C20sysrand: 8-32 pairs with Conversation.Rand left unset (the operating system's generator, the default every real application uses) run 1-3 rounds of re-keying, traffic, SMP and teardown at the same time; "
             "not byte-reproducible, so judged by what holds for any random bytes: no call fails, every text arrives intact, SMP with equal secrets succeeds, no two sessions share a session id, and no DATA RACE report. "
             " Non-trivial: at least 4 pairs were running at the same logical moment and the case made >= 4 calls per pair."),
    "assumptions": COMMON_ASSUME + ["the harness owns no shared mutable state between pairs (its statistics are mutex-protected and written outside the measured section)"],
    "exhaustive_checks": ["C20stall"],
    "tests": [
        {"name": "TestProp_C20_Stall", "kind": "plain", "quick": {"shards": 4, "timeout": 900}, "thorough": {"shards": 4, "timeout": 3000}},
        {"name": "TestProp_C20_Transcripts", "quick": {"shards": 4, "checks": 4, "timeout": 600}, "thorough": {"shards": 8, "checks": 60, "timeout": 3000}},
        {"name": "TestProp_C20_SysRand", "build": "race", "race_is_violation": True, "quick": {"shards": 2, "checks": 3, "timeout": 900}, "thorough": {"shards": 4, "checks": 40, "timeout": 3000}},
        {"name": "TestProp_C20_Race", "build": "race", "race_is_violation": True, "quick": {"shards": 2, "checks": 3, "timeout": 900}, "thorough": {"shards": 4, "checks": 30, "timeout": 3000}},
    ],
}

# ---- additions made while building (rounds 2 and 3 of the seeded changes); appended to the rules above ----
_EXTRA = {
    "C02": " Added: for every MAC key disclosed on the wire a forgery for exactly the key pair it belongs to (fresh counter) is presented to the party it would authenticate towards; 'holdback' keeps one side's message in flight while keys rotate and are disclosed around it; injected cleartext also carries whitespace tags and receivers take up tags.",
    "C03": " Added: encryption is due from the announcement of a session until End() or the peer's disconnect according to the harness's own lifecycle model, not the library's IsEncrypted(); C03faults enumerates a failing randomness read at positions 0..13 of a key exchange x party x starter x pre-state (none, session, peer-ended) x version policy.",
    "C05": " Added: randomness faults (one read fails) in the middle of histories, followed by replays.",
    "C06": " Added: rejected-input kind 'length prefix' (a DATA/MPI length of an AKE message altered); byte-exact comparison of the wire output whenever both worlds have identical randomness histories; C06firstuse enumerates damaged copies that arrive before the genuine message and are the first use of their key pair, followed by enough traffic to retire that pair.",
    "C09": " Added: randomness faults: a rotation that did not happen must not lead to disclosure.",
    "C10": " Added: every 20 bytes of the old-MAC-keys field must be a MAC key of a key pair of the discloser; the reference may open the conversation with the specification's whitespace tag (five forms, version 1 group first where present); C10fragsweep: one text sent at every fragment size from the minimum to beyond the encoded length, reassembled and read by the reference.",
    "C11": " Added: C11short - each of 26 values of the reference prover's messages forced to have a zero top byte (one byte shorter as MPI) by re-drawing its randomness; equal secrets must succeed, different ones fail.",
    "C14": " Added: a piece with the right index in the other version's header format and a payload of its own arrives before the genuine last piece; C14unbound: pieces of two peer instances interleaved at a conversation that knows no peer instance yet (every order-preserving interleaving of 2- and 3-piece messages, with one repetition).",
    "C16": " Added: form 7 - a D-H Commit of a forbidden version (genuine, or relabelled and correctly addressed) after 0..5 handshake messages and in the established session: no reply, no state change, the handshake completes and text flows.",
    "C18": " Added: End() closes the books for resending; C18faults (failing read at every position of a key exchange) and C18ended (the peer's error message at five points around peer-ended/End()/new session) are enumerated; texts accepted while waiting for encryption must all be transmitted in the call that starts the session (C18queued: 1-3 queued texts, time passing on either side before the peer answers, with or without an earlier session).",
    "C19": " Added: runs of forgeries walking over the acceptable key-id pairs, unauthenticated fragment floods with reserved/foreign/unparsable tags, error-request plus re-key cycles with a silent user, listen-only parties whose only output is the heartbeat.",
    "C20": " Added: the application's memory is judged: pass-phrase buffers shared by all pairs must be unchanged, and every message or plaintext handed out by the library must still read as it did when returned (checked after each solo run and after the concurrent rounds); every pair provokes a generated error message while encrypted; C20sysrand optionally gives all A sides one freshly loaded account key object; C20stall parks one conversation inside read k of its own randomness source (k = 0..9, either party, both versions) and requires an unrelated pair to run a whole session meanwhile.",
    "C08": " Added: C08faults - one party's randomness fails from read k on (k=0..14, persistent or one-shot, error or short read) during a handshake; secrets of an exchange the party has left must be gone, decided by presenting the refused final message once more on a healed source.",
    "C07": " Added: for Send under required encryption the trigger is repeated (1x quick, 2x thorough) at every point of every schedule.",
    "C12": " Added: C12sync - two real otr3 parties: every sequence of up to 3 (thorough: 4) steps over {start, answer asked-or-not, abort, deliver, lose} by either user, then AbortAuthentication and a fresh run by either user, which must succeed on both sides; a StartAuthenticate that fails for lack of randomness, idle or mid-run.",
    "C01": " Added: C01stray - every point of a handshake (fresh or inside a running session) x either receiver x every message of a recorded earlier exchange, addressed as the receiver expects, then the final probe; C01restart - a session with traffic, a client restart of either side (same key and instance tag), a new exchange, either side speaking first; C01faults - inside a running session one read of the victim's randomness source fails (read k = 0..11 from now, error or short read) while the attacker (own key, either role, writing the peer instance's tag) or the honest peer runs a further exchange with the victim: afterwards what each side sends must be readable for the party whose key and session it reports and for nobody else (the attacker tries to read one text of each side with the keys of its own exchanges); the attacker's exchanges against a v3 victim that knows its peer instance carry that instance's tag.",
    "C04": " Added: 'sk' arms a D-H key whose public value has a zero top byte; session configurations arm 0-3 such keys per party in a quarter of the cases; 'frag' changes the fragment size in mid-session (also to sizes too small for a header); texts may look like protocol traffic or consist of blanks; C04words samples words of 8-28 steps over just {send A, send B, deliver, deliver}.",
}
for _k, _v in _EXTRA.items():
    if _v:
        PROPS[_k]["rule"] = "".join(PROPS[_k]["rule"]) if isinstance(PROPS[_k]["rule"], tuple) else PROPS[_k]["rule"]
        PROPS[_k]["rule"] += _v

_EXTRA2 = {
    "C12": " Round 7: C12structure - every structural deviation (element count +1, -1, huge, zero; value cut short; question without terminator; empty record) in every message slot, the first message with and without a question; group elements that are multiples of p (0, p, 2p, 3p) with the matching degenerate proof are judged under version 2 as well (the open finding covers out-of-range elements that are not multiples of p only).",
    "C01": " Round 6: randomness faults are ordinary ops of the attack scripts; the attacker's own exchanges against a v3 victim that knows its peer instance carry that instance's tag (otherwise they are ignored unseen); at the end the attacker tries to read one text of each side with the keys of its own exchanges: a side that reports an honest peer must not be readable for the attacker, a side that reports the attacker's key and session must be.",
    "C02": " Round 6: C02resent - for every text length 12..911 (thorough ..4211), both versions: the text is sent, the peer's client reports it unreadable, the parties re-key, and what comes back marked '[resent] ' must be exactly the text passed to Send.",
    "C03": " Round 7: the policy product is also run with a party that has no long-term key yet (no exchange with it can complete; what it owes the user's text is unchanged). Round 6: the peer's disconnect record may carry a value of 1-3 bytes, be preceded by a padding record and travel together with last words.",
    "C04": " Round 6: C04long - texts of 33-100 KB in both directions, whole and in pieces of 150..65535 bytes.",
    "C05": " Round 7: the first delivery may meet a failing randomness source (the text may come out once in all, over the first delivery and every repetition); the reference's counter may jump by 3*2^61 twice before the first message is presented again. Round 6: C05refreplay - data messages built by the reference in forms otr3's own Send never produces (text flagged ignore-unreadable, text plus extra-key record, flagged text plus padding, records only), accepted once and delivered again after 0, 1, 2 and 4 rounds of traffic: no text, no record acted on again.",
    "C06": " Round 6: C06fresh - two conversations that have never talked: at every point of their first exchange either side receives a refused or ignored key-exchange message (wrong or foreign instance tags, from another instance to another instance of ours, cut short, damaged, other version, retyped, length prefix altered), compared with the twin world byte for byte.",
    "C07": " Round 7: every handshake message in pieces (fragment sizes 70 and 300) between clients that have persisted their instance tags, single starters; a refresh must end in a new session id on both sides (the old session staying in place used to pass). the version pairs with unequal policies (23/3, 2/23, 3/23, 23/2) run the plain start patterns in the quick tier too. Round 6: the other side starts too, at any later point of the schedule (its own trigger once, all four triggers); trigger 5: a tagged text written by another implementation (8 forms: version-1 and later-version groups before, between or after the known ones) reaches a party that starts on tags - it must send a D-H Commit and the exchange must complete in every schedule.",
    "C08": " Round 6: C08peerend - otr3 against the reference, which ends the session in 128 ways (disconnect record with a 0-3 byte value, padding record first, last words in the same message, six kinds of trailing bytes, both versions): afterwards no D-H exponent otr3 drew is reachable from the conversation or left unzeroed.",
    "C10": " Round 7: texts of 49-100 KB in the fragment sweep (reassembled and read by the reference); a key exchange inside the session in which every Reveal Signature / Signature of the reference arrives behind a copy of itself with a damaged MAC. Round 6: the reference may number its first D-H key 2, 3, 100 or 70000 (any number > 0 is legal), may start every record block with a padding record, and may end the session with last words in the same message, a disconnect record carrying a value, padding first - with otr3's heartbeat due or not.",
    "C11": " Round 6: the secret buffers handed to StartAuthenticate / ProvideAuthenticationSecret are the caller's again when the call returns: the harness overwrites them immediately.",
    "C13": " Round 6: C13truncations - every message of a real session (both versions, whole and in pieces) cut after each of its first 40 / last 8 decoded bytes and first 24 / last 6 characters, given to ExtractInstanceTags, and the decoded-body cuts to Receive in a fresh and in an encrypted conversation.",
    "C14": " Round 6: the message in pieces may be an '?OTR Error' message: it is reported to the application exactly once, on completion, and never again whatever arrives later (counted over all arrivals of the case).",
    "C17": " Round 6: SMP questions are arbitrary non-NUL bytes (any encoding or none).",
    "C18": " Round 6: C18peerend - the 128 peer-end forms of C08peerend: exactly one GoneInsecure, last words delivered without error, Send refused until End(), plaintext afterwards, End() raises nothing more.",
    "C19": " Round 7: C19ref - otr3 against the reference for 4N rounds of ping-pong, listening only, mostly talking, or flagged texts, with the reference numbering its keys from 1, 2, 100 or 70000 and putting padding first or not. Round 6: something happens once before the cycles - an '?OTR Error' request, or a query whose D-H Commit answer is lost so that a key exchange stays pending - and then one kind of traffic goes on (sends, ping-pong, crossing messages, garbage, forgeries, replays).",
}
for _k, _v in _EXTRA2.items():
    PROPS[_k]["rule"] += _v
